//! Allocation monitor: a counting global allocator with per-thread live/peak byte counters.
//! Per-thread (not global) counters keep the 16 worker threads from contending on one cache line,
//! and make `measure` meaningful while other threads allocate.

use std::{
    alloc::{GlobalAlloc, Layout, System},
    cell::Cell,
};

pub struct Counting;

thread_local! {
    static LIVE: Cell<isize> = const { Cell::new(0) };
    static PEAK: Cell<isize> = const { Cell::new(0) };
    static LARGEST: Cell<usize> = const { Cell::new(0) };
}

#[inline]
fn add(n: usize) {
    let _ = LIVE.try_with(|l| {
        let v = l.get() + n as isize;
        l.set(v);
        let _ = PEAK.try_with(|p| {
            if v > p.get() {
                p.set(v)
            }
        });
    });
    let _ = LARGEST.try_with(|m| {
        if n > m.get() {
            m.set(n)
        }
    });
}

#[inline]
fn sub(n: usize) {
    let _ = LIVE.try_with(|l| l.set(l.get() - n as isize));
}

unsafe impl GlobalAlloc for Counting {
    unsafe fn alloc(&self, layout: Layout) -> *mut u8 {
        add(layout.size());
        System.alloc(layout)
    }
    unsafe fn dealloc(&self, ptr: *mut u8, layout: Layout) {
        sub(layout.size());
        System.dealloc(ptr, layout)
    }
    unsafe fn alloc_zeroed(&self, layout: Layout) -> *mut u8 {
        add(layout.size());
        System.alloc_zeroed(layout)
    }
    unsafe fn realloc(&self, ptr: *mut u8, layout: Layout, new_size: usize) -> *mut u8 {
        if new_size >= layout.size() {
            add(new_size - layout.size());
        } else {
            sub(layout.size() - new_size);
        }
        System.realloc(ptr, layout, new_size)
    }
}

/// Run `f` on this thread and return (result, peak heap growth in bytes, largest single request).
pub fn measure<T>(f: impl FnOnce() -> T) -> (T, usize, usize) {
    let base = LIVE.with(|l| l.get());
    PEAK.with(|p| p.set(base));
    LARGEST.with(|m| m.set(0));
    let r = f();
    let peak = PEAK.with(|p| p.get());
    let largest = LARGEST.with(|m| m.get());
    (r, (peak - base).max(0) as usize, largest)
}
