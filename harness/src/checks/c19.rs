//! C19 — Cancelling a pending async read loses nothing.

use std::{
    collections::BTreeSet,
    future::Future,
    task::{Context, Poll},
};

use insim::{
    insim::{Tiny, TinyType},
    identifiers::RequestId,
    net::{tokio_impl, Codec},
    Packet,
};
use rayon::prelude::*;
use serde_json::json;

use crate::{
    corpus::{mode_name, Corpus, MODES},
    ctx::{hex, Ctx, Part, Tier},
    refspec::{limit, GenOpts, TextMode},
    sess::{expected_results, short},
    transport::{classify, mode_of, noop_waker, ref_frames, runtime, AsyncTransport, Ev, Handle, RAct, ReadResult, WAct},
};

#[derive(Clone, Debug)]
pub struct Session {
    pub compressed: bool,
    pub stream: Vec<u8>,
    pub read_plan: Vec<RAct>,
    pub default_read: usize,
    pub write_plan: Vec<WAct>,
    pub default_write: usize,
    /// drop the read future after these (1-based, session-global) poll numbers, if that poll returned Pending
    pub drops: BTreeSet<usize>,
    /// perform a user write (a TINY ping) right after every drop
    pub write_after_drop: bool,
    /// `Some(plan)`: the transport buffers what it accepts (like the WebSocket adaptor) and only a completed flush
    /// puts it on the wire; `true` entries make a flush poll return Pending
    pub flush_plan: Option<Vec<bool>>,
    /// version gate on (as connections made by the builder have it by default)
    pub verify_version: bool,
    /// the user write after a drop is a `handshake` (the other public call that writes) instead of a `write`
    pub handshake_after_drop: bool,
    /// the packet the user writes after a drop is itself TINY_NONE with request id 0 (indistinguishable from a reply on
    /// the wire: the outgoing side must then hold one frame per keep-alive received plus one per such write)
    pub user_writes_keepalive: bool,
    pub label: String,
}

#[derive(Debug)]
pub struct Outcome {
    pub results: Vec<ReadResult>,
    pub written: Vec<u8>,
    pub user_frames: usize,
    pub polls: usize,
    pub drops_done: usize,
    /// where the future was suspended at each drop
    pub suspended_on: Vec<&'static str>,
    /// bytes accepted by a buffering transport but never flushed by the end of the session
    pub staged_left: usize,
    pub conservation_break: Option<String>,
    pub runaway: bool,
}

pub fn run_session(s: &Session) -> Outcome {
    let h = Handle::new(s.stream.clone(), s.read_plan.clone(), s.write_plan.clone());
    h.with(|x| {
        x.default_read = s.default_read;
        x.default_write = s.default_write;
        if let Some(fp) = &s.flush_plan {
            x.buffered = true;
            x.flush_plan = fp.iter().copied().collect();
        }
    });
    let mut f = tokio_impl::Framed::new(Box::new(AsyncTransport(h.clone())), Codec::new(mode_of(s.compressed)));
    f.verify_version(s.verify_version);
    let (_, sizes) = expected_results(&s.stream, s.compressed);
    let w = noop_waker();
    let mut cx = Context::from_waker(&w);
    let mut out = Outcome { results: vec![], written: vec![], user_frames: 0, polls: 0, drops_done: 0, suspended_on: vec![], staged_left: 0, conservation_break: None, runaway: false };
    let max_polls = 200 + 20 * (s.stream.len() + s.read_plan.len() + s.write_plan.len() + s.drops.len());
    let mut consumed = 0usize;
    let mut returned_frames = 0usize;
    let mut disconnects = 0;
    'session: loop {
        let mut dropped = false;
        {
            let mut fut = Box::pin(f.read());
            loop {
                if out.polls >= max_polls {
                    out.runaway = true;
                    break 'session;
                }
                out.polls += 1;
                match fut.as_mut().poll(&mut cx) {
                    Poll::Ready(r) => {
                        let r = classify(r);
                        match &r {
                            ReadResult::Disconnected => disconnects += 1,
                            _ => {
                                if returned_frames < sizes.len() {
                                    consumed += sizes[returned_frames];
                                }
                                returned_frames += 1;
                                out.results.push(r);
                            },
                        }
                        break;
                    },
                    Poll::Pending => {
                        if s.drops.contains(&out.polls) {
                            let last = h.with(|x| x.events.iter().rev().find(|e| matches!(e, Ev::TReadPending | Ev::TWritePending | Ev::TFlushPending | Ev::TWrite { .. } | Ev::TRead { .. })).cloned());
                            out.suspended_on.push(match last {
                                Some(Ev::TFlushPending) => "flush",
                                Some(Ev::TWritePending) | Some(Ev::TWrite { .. }) => "write-half",
                                _ => "read-half",
                            });
                            h.log(Ev::FutureDropped { poll_index: out.polls });
                            out.drops_done += 1;
                            dropped = true;
                            break;
                        }
                    },
                }
            }
            // fut dropped here
        }
        // conservation between drops: delivered = frames returned + buffered (+ a frame held back inside the connection)
        let (len, _) = f.verif_buffer_state();
        let delivered = h.with(|x| x.rpos);
        let held_back_ok = returned_frames < sizes.len() && delivered == consumed + len + sizes[returned_frames];
        if delivered != consumed + len && !held_back_ok && out.conservation_break.is_none() && disconnects == 0 {
            out.conservation_break = Some(format!("after poll {}: transport delivered {delivered} bytes, returned frames account for {consumed}, {len} buffered", out.polls));
        }
        if dropped && s.write_after_drop {
            let mut done = false;
            if s.handshake_after_drop {
                let isi = insim::insim::Isi { iname: "again".into(), ..Default::default() };
                let mut wf = Box::pin(f.handshake(isi, std::time::Duration::from_secs(30)));
                for _ in 0..10_000 {
                    out.polls += 1;
                    if let Poll::Ready(_r) = wf.as_mut().poll(&mut cx) {
                        done = true;
                        break;
                    }
                }
            } else {
                let user_packet = if s.user_writes_keepalive { Tiny { reqi: RequestId(0), subt: TinyType::None } } else { Tiny { reqi: RequestId(77), subt: TinyType::Ping } };
                let mut wf = Box::pin(f.write(Packet::Tiny(user_packet)));
                for _ in 0..10_000 {
                    out.polls += 1;
                    if let Poll::Ready(_r) = wf.as_mut().poll(&mut cx) {
                        done = true;
                        break;
                    }
                }
            }
            if done {
                out.user_frames += 1;
            }
        }
        if disconnects >= 2 {
            break;
        }
    }
    out.written = h.with(|x| x.written.clone());
    out.staged_left = h.with(|x| x.staged.len());
    out
}

/// Results of the uninterrupted session: one per frame, with the version gate applied when it is on.
pub fn expected_with_gate(stream: &[u8], compressed: bool, verify_version: bool) -> Vec<ReadResult> {
    let (mut expected, _) = expected_results(stream, compressed);
    if verify_version {
        let (frames, _) = ref_frames(stream, compressed);
        for (i, f) in frames.iter().enumerate() {
            if f.len() == 20 && f[1] == 2 && f[18] != 9 && matches!(expected.get(i), Some(ReadResult::Packet(_))) {
                expected[i] = ReadResult::IncompatibleVersion(f[18]);
            }
        }
    }
    expected
}

fn judge(s: &Session, o: &Outcome, p: &mut Part) {
    let expected = expected_with_gate(&s.stream, s.compressed, s.verify_version);
    let (frames, _) = ref_frames(&s.stream, s.compressed);
    let keepalives = frames.iter().filter(|f| f.len() == 4 && f[1] == 3 && f[2] == 0 && f[3] == 0).count();
    let susp = o.suspended_on.iter().map(|x| x.to_string()).collect::<Vec<_>>();
    let where_ = if susp.iter().any(|x| x == "flush") { "drop-while-suspended-on-flush" } else if susp.iter().any(|x| x == "write-half") { "drop-while-suspended-on-write-half" } else if susp.is_empty() { "no-drop" } else { "drop-while-suspended-on-read-half" };
    let replay = || {
        json!({"mode": mode_name(s.compressed), "label": s.label, "stream": hex(&s.stream[..s.stream.len().min(2048)]), "read_plan": format!("{:?}", &s.read_plan[..s.read_plan.len().min(64)]), "default_read": s.default_read,
               "write_plan": format!("{:?}", &s.write_plan[..s.write_plan.len().min(64)]), "default_write": s.default_write, "drops": s.drops.iter().collect::<Vec<_>>(), "write_after_drop": s.write_after_drop,
               "suspended_on": susp, "outgoing": hex(&o.written[..o.written.len().min(256)])})
    };
    if o.runaway {
        p.violation(format!("C19/{where_}/runaway"), format!("[{}] session did not finish within its poll budget ({} polls)", s.label, o.polls), replay());
        return;
    }
    if o.results != expected {
        let at = o.results.iter().zip(expected.iter()).position(|(a, b)| a != b).unwrap_or(o.results.len().min(expected.len()));
        let lost_ka = expected.get(at).map(|e| matches!(e, ReadResult::Packet(d) if d.contains("subt: None") && d.contains("RequestId(0)"))).unwrap_or(false);
        let what = if o.results.len() < expected.len() {
            if lost_ka {
                "keepalive-packet-lost"
            } else {
                "packet-lost"
            }
        } else if o.results.len() > expected.len() {
            "packet-duplicated"
        } else {
            "packet-differs"
        };
        p.violation(
            format!("C19/{where_}/{what}"),
            format!(
                "{} [{}]: after {} drop(s) ({:?}) completed reads returned {} packets, an uninterrupted session {}; first difference at #{at}: {} vs {}",
                mode_name(s.compressed),
                s.label,
                o.drops_done,
                o.suspended_on,
                o.results.len(),
                expected.len(),
                o.results.get(at).map(short).unwrap_or_else(|| "<none>".into()),
                expected.get(at).map(short).unwrap_or_else(|| "<none>".into())
            ),
            replay(),
        );
    }
    // outgoing side: whole frames only, exactly the uninterrupted session's replies plus the user's frames
    let (out_frames, rest) = ref_frames(&o.written, s.compressed);
    let replies = out_frames.iter().filter(|f| f.len() == 4 && f[1] == 3 && f[2] == 0 && f[3] == 0).count();
    let users = out_frames.iter().filter(|f| (f.len() == 4 && f[1] == 3 && f[2] == 77) || (f.len() == 44 && f[1] == 1)).count();
    if !rest.is_empty() || replies + users != out_frames.len() {
        p.violation(
            format!("C19/{where_}/partial-frame-on-outgoing-side"),
            format!("{} [{}]: outgoing bytes {} do not parse into whole frames (drops {:?})", mode_name(s.compressed), s.label, hex(&o.written[..o.written.len().min(64)]), o.suspended_on),
            replay(),
        );
    } else if s.user_writes_keepalive && !s.handshake_after_drop {
        if replies != keepalives + o.user_frames || users != 0 {
            p.violation(
                format!("C19/{where_}/outgoing-differs"),
                format!("{} [{}]: {keepalives} keep-alives received and {} keep-alive packets written by the user: {replies} TINY_NONE frames on the wire", mode_name(s.compressed), s.label, o.user_frames),
                replay(),
            );
        }
    } else if replies != keepalives || users != o.user_frames {
        p.violation(
            format!("C19/{where_}/outgoing-differs"),
            format!("{} [{}]: {keepalives} keep-alives received, {replies} replies on the wire; {} user frames written, {users} on the wire", mode_name(s.compressed), s.label, o.user_frames),
            replay(),
        );
    }
    if o.staged_left > 0 {
        p.violation(
            format!("C19/{where_}/reply-never-flushed"),
            format!("{} [{}]: the session is over and {} byte(s) the buffering transport accepted were never flushed onto the wire (drops {:?})", mode_name(s.compressed), s.label, o.staged_left, o.suspended_on),
            replay(),
        );
    }
    if let Some(b) = &o.conservation_break {
        p.violation(format!("C19/{where_}/byte-conservation"), format!("[{}] {b}", s.label), replay());
    }
}

fn ka(compressed: bool) -> [u8; 4] {
    if compressed {
        [1, 3, 0, 0]
    } else {
        [4, 3, 0, 0]
    }
}

pub fn run(ctx: &mut Ctx) -> (&'static str, String, bool) {
    let c = match Corpus::load() {
        Ok(c) => c,
        Err(e) => {
            ctx.inconclusive(format!("cannot load the reference specification: {e}"));
            return ("fault_enumeration", "spec missing".into(), false);
        },
    };
    let c = &c;
    let miri = ctx.stage.as_deref() == Some("miri");
    let (shard, nshards) = ctx.shard;
    let thorough = ctx.tier == Tier::Thorough;
    let base_rng = ctx.rng.fork(19);

    // ---- short sessions: every single drop point and every pair ------------------------------------
    let mut shorts: Vec<(bool, Vec<u8>, String)> = vec![];
    for compressed in MODES {
        let k = ka(compressed);
        let s = |n: usize| if compressed { (n / 4) as u8 } else { n as u8 };
        let ping = [s(4), 3, 9, 3];
        let small = [s(8), 4, 1, 4, 1, 0, 0, 0];
        // keep-alive at every position of sessions of 1..4 frames
        shorts.push((compressed, k.to_vec(), "ka".into()));
        shorts.push((compressed, [&k[..], &ping[..]].concat(), "ka-ping".into()));
        shorts.push((compressed, [&ping[..], &k[..]].concat(), "ping-ka".into()));
        shorts.push((compressed, [&ping[..], &k[..], &small[..]].concat(), "ping-ka-small".into()));
        shorts.push((compressed, [&k[..], &k[..], &small[..], &k[..]].concat(), "ka-ka-small-ka".into()));
        shorts.push((compressed, [&small[..], &ping[..], &k[..], &ping[..]].concat(), "small-ping-ka-ping".into()));
        // version packets under the gate (labels containing "ver" run with verification on)
        let ver = |v: u8| -> Vec<u8> {
            let mut f = vec![s(20), 2, 1, 0];
            f.extend_from_slice(b"0.7F\0\0\0\0S3\0\0\0\0");
            f.push(v);
            f.push(0);
            f
        };
        shorts.push((compressed, [&ver(8)[..], &ping[..]].concat(), "ver8-ping".into()));
        shorts.push((compressed, [&k[..], &ver(10)[..], &k[..], &ver(9)[..]].concat(), "ka-ver10-ka-ver9".into()));
        if thorough {
            shorts.push((compressed, [&k[..], &small[..], &k[..], &ping[..], &k[..], &small[..]].concat(), "ka-small-ka-ping-ka-small".into()));
        }
    }
    // readiness scripts on both halves
    let scripts: Vec<(usize, usize, usize, usize, usize)> = {
        // (pendings before each read, bytes per read, pendings before each write, bytes per write,
        //  flush: 0 = unbuffered transport, k = buffering transport whose flush is Pending k-1 times before it completes)
        let mut v = vec![(0, 0, 0, 0, 0), (1, 0, 1, 0, 0), (1, 3, 1, 1, 0), (2, 1, 2, 3, 0), (0, 5, 1, 2, 0), (1, 4, 0, 4, 0), (0, 0, 0, 0, 2), (1, 0, 1, 0, 3), (1, 3, 1, 1, 2), (0, 5, 0, 0, 1)];
        if thorough {
            v.extend([(3, 2, 3, 1, 0), (0, 1, 0, 1, 0), (2, 7, 1, 3, 0), (2, 1, 2, 3, 2), (1, 4, 0, 4, 4), (0, 1, 1, 2, 3)]);
        }
        v
    };
    let jobs: Vec<(usize, &(bool, Vec<u8>, String), &(usize, usize, usize, usize, usize))> = shorts.iter().flat_map(|s| scripts.iter().map(move |sc| (s, sc))).enumerate().map(|(i, (s, sc))| (i, s, sc)).collect();
    let parts: Vec<Part> = jobs
        .par_iter()
        .map(|(ji, (compressed, stream, label), (rp, rk, wp, wk, fl))| {
            let rt = runtime();
            let _g = rt.enter();
            let mut p = Part::new();
            if miri && ((*ji as u64) % (3 * nshards) != 3 * shard || !*compressed) {
                return p;
            }
            let mk_plans = || {
                let mut rplan = vec![];
                for _ in 0..(stream.len() + 4) {
                    for _ in 0..*rp {
                        rplan.push(RAct::Pending);
                    }
                    rplan.push(RAct::Bytes(if *rk == 0 { usize::MAX } else { *rk }));
                }
                let mut wplan = vec![];
                for _ in 0..64 {
                    for _ in 0..*wp {
                        wplan.push(WAct::Pending);
                    }
                    wplan.push(WAct::Accept(if *wk == 0 { usize::MAX } else { *wk }));
                }
                (rplan, wplan)
            };
            let (rplan, wplan) = mk_plans();
            let base = Session { compressed: *compressed, stream: stream.clone(), read_plan: rplan, default_read: 0, write_plan: wplan, default_write: 0, drops: BTreeSet::new(), write_after_drop: false, flush_plan: if *fl == 0 { None } else { Some((0..200).map(|i| i % fl != fl - 1).collect()) }, verify_version: label.contains("ver"), handshake_after_drop: false, user_writes_keepalive: false, label: format!("{label}-r{rp}x{rk}-w{wp}x{wk}-f{fl}") };
            // uninterrupted reference run
            let o0 = run_session(&base);
            p.evaluations += 1;
            judge(&base, &o0, &mut p);
            let total = o0.polls;
            // every single drop point
            for k in 1..=total + 2 {
                for wad in [0u8, 1, 2, 3] {
                    if miri && wad > 0 && k % 2 == 0 {
                        continue;
                    }
                    let mut s = base.clone();
                    let _ = s.drops.insert(k);
                    s.write_after_drop = wad > 0;
                    s.handshake_after_drop = wad == 2;
                    s.user_writes_keepalive = wad == 3;
                    s.label = format!("{}-drop{k}{}", base.label, ["", "-then-write", "-then-handshake", "-then-write-keepalive"][wad as usize]);
                    let o = run_session(&s);
                    p.evaluations += 1;
                    p.distinct(&s.label);
                    if o.drops_done > 0 {
                        p.count(&format!("drops_on_{}", o.suspended_on[0]), 1);
                    }
                    judge(&s, &o, &mut p);
                }
            }
            // every pair of drop points
            let pair_cap = if miri { 4 } else if thorough { 120 } else { 40 };
            let lim = (total + 2).min(pair_cap);
            for k1 in 1..=lim {
                for k2 in k1 + 1..=lim + 2 {
                    let mut s = base.clone();
                    let _ = s.drops.insert(k1);
                    let _ = s.drops.insert(k2);
                    s.label = format!("{}-drop{k1}+{k2}", base.label);
                    let o = run_session(&s);
                    p.evaluations += 1;
                    p.distinct(&s.label);
                    judge(&s, &o, &mut p);
                }
            }
            // select!-style strobe: drop at every n-th poll
            for nth in 1..=if miri { 2usize } else { 5usize } {
                let mut s = base.clone();
                s.drops = (1..400).filter(|k| k % nth == 0).collect();
                if nth == 1 {
                    // dropping after every single poll can never make progress through a Pending script; keep one free poll in three
                    s.drops = (1..400).filter(|k| k % 3 != 0).collect();
                }
                s.label = format!("{}-strobe{nth}", base.label);
                let o = run_session(&s);
                p.evaluations += 1;
                p.distinct(&s.label);
                if !o.runaway {
                    judge(&s, &o, &mut p);
                } else {
                    p.count("strobe_without_progress", 1);
                }
            }
            if *ji == 0 {
                p.sample(json!({"session": base.label, "stream": hex(stream), "polls_uninterrupted": total, "single_drop_points": total + 2}));
            }
            p
        })
        .collect();
    for p in parts {
        ctx.merge(p);
    }

    // ---- long sessions with random multi-drop plans (including > 6120 bytes) ------------------------
    let n = if miri { 1 } else { ctx.tier.pick(2_000u64, 60_000u64) };
    let parts: Vec<Part> = (0..n)
        .into_par_iter()
        .map(|i| {
            let rt = runtime();
            let _g = rt.enter();
            let mut p = Part::new();
            let mut r = base_rng.fork(100 + i + 2003 * shard);
            let compressed = i % 2 == 0;
            let nframes = if miri { 8 } else { 1 + r.usize_below(200) };
            let mut stream = vec![];
            for _ in 0..nframes {
                if r.chance(1, 4) {
                    stream.extend_from_slice(&ka(compressed));
                } else {
                    let lay = r.pick(c.kinds());
                    let o = GenOpts { text: TextMode::Ascii, max_list: Some(if i % 7 == 0 { 30 } else { 3 }), boundary: 4, hostile: false };
                    if let Some((_, f)) = c.ref_frame(&mut r, lay, &o, compressed) {
                        if f.len() <= limit(compressed) {
                            stream.extend(f);
                        }
                    }
                }
            }
            let mut stream = stream;
            let mut rplan = vec![];
            for _ in 0..r.usize_below(400) {
                rplan.push(if r.chance(1, 3) { RAct::Pending } else { RAct::Bytes(1 + r.usize_below(40)) });
            }
            let mut wplan = vec![];
            for _ in 0..r.usize_below(200) {
                wplan.push(if r.chance(1, 2) { WAct::Pending } else { WAct::Accept(1 + r.usize_below(4)) });
            }
            let ndrops = r.usize_below(30);
            let horizon = 50 + stream.len() / 4;
            let mut drops: BTreeSet<usize> = (0..ndrops).map(|_| 1 + r.usize_below(horizon)).collect();
            // every fifth long session: each frame arrives in two pieces with a Pending in between, and the read is
            // dropped at every one of those Pendings - for the whole session, far beyond the 6120-byte buffer
            if i % 5 == 4 && !miri {
                while stream.len() < 3 * 6120 {
                    let again = stream.clone();
                    stream.extend(again);
                }
                rplan.clear();
                let (frames, _) = ref_frames(&stream, compressed);
                for f in &frames {
                    let k = 1 + r.usize_below(f.len() - 1);
                    rplan.push(RAct::Bytes(k));
                    rplan.push(RAct::Pending);
                    rplan.push(RAct::Bytes(f.len() - k));
                }
                drops = (1..=4 * frames.len() + 64).collect();
            }
            let s = Session { compressed, stream, read_plan: rplan, default_read: 1 + r.usize_below(900), write_plan: wplan, default_write: 1 + r.usize_below(4), drops, write_after_drop: r.chance(1, 3), flush_plan: if i % 3 == 2 { Some((0..r.usize_below(60)).map(|_| r.chance(1, 2)).collect()) } else { None }, verify_version: i % 4 == 1, handshake_after_drop: i % 5 == 3, user_writes_keepalive: i % 7 == 2, label: format!("long-{i}") };
            let o = run_session(&s);
            p.evaluations += 1;
            p.distinct(&s.stream);
            for w in &o.suspended_on {
                p.count(&format!("drops_on_{w}"), 1);
            }
            judge(&s, &o, &mut p);
            p
        })
        .collect();
    for p in parts {
        ctx.merge(p);
    }
    // ---- real adaptors: read raced against a ticker over loopback TCP / UDP / WebSocket -----------------
    if !miri {
        use super::c19_real::{real_session, Tr};
        let n = ctx.tier.pick(36u64, 600u64);
        let parts: Vec<(Part, Vec<String>)> = (0..n)
            .into_par_iter()
            .map(|i| {
                let mut p = Part::new();
                let mut r = base_rng.fork(900_000 + i);
                let tr = [Tr::Tcp, Tr::Udp, Tr::Ws][(i % 3) as usize];
                let compressed = (i / 3) % 2 == 0;
                let strobe = if i % 4 == 3 { [4, 0, 4, 2][((i / 4) % 4) as usize] } else { (i / 6) % 5 };
                let mut errs = vec![];
                if let Err(e) = real_session(c, &mut r, tr, compressed, strobe, i % 4 == 3, &mut p) {
                    errs.push(e);
                }
                (p, errs)
            })
            .collect();
        let mut errs = vec![];
        for (p, e) in parts {
            ctx.merge(p);
            errs.extend(e);
        }
        if !errs.is_empty() {
            ctx.inconclusive(format!("{} real-adaptor session(s) could not be judged (socket setup or watchdog): {}", errs.len(), errs[0]));
        }
        for t in ["tcp", "udp", "ws"] {
            if ctx.part.counters.get(&format!("real_{t}_drops")).copied().unwrap_or(0) == 0 {
                ctx.inconclusive(format!("no read was ever dropped in the real {t} sessions"));
            }
        }
    }
    // (a Miri shard holds a slice of the plans; the native stages of the same run carry this coverage requirement)
    if !miri && (ctx.part.counters.get("drops_on_write-half").copied().unwrap_or(0) == 0 || ctx.part.counters.get("drops_on_read-half").copied().unwrap_or(0) == 0) {
        ctx.inconclusive("the drop plans never hit both suspension points (read half and write half)");
    }
    ctx.assume("cooperative single-task schedules: the read future is polled by hand under a paused-clock current-thread runtime and dropped right after a poll that returned Pending; suspension points are the scripted transport's Pending returns");
    (
        "fault_enumeration",
        "short sessions (keep-alive at every position of 1..4(6)-frame sessions) x 6(9) readiness scripts on both halves x every single drop point (with and without a user write right after the drop) x every pair of drop points x select!-style strobes; long sessions up to 200 frames with random Pending/partial scripts and random multi-drop plans; judged against the uninterrupted session (returned packets, outgoing whole frames, byte conservation via hook); real loopback TCP / tokio UDP adaptor / WebSocket adaptor sessions with the read raced against a ticker in a select! loop (5 ticker styles incl. poll-once-and-drop; a quarter of them bursts of 300-600 small frames in one segment), judged on returned packets and on the replies the peer received; distinct = distinct (session, drop plan)".into(),
        true,
    )
}
