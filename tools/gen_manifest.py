#!/usr/bin/env python3
"""Regenerates /verif/MANIFEST.json from the table below (single source of truth for the interface)."""
import json
import os
import subprocess

ROOT = os.path.dirname(os.path.dirname(os.path.abspath(__file__)))

# id -> (category, technique, level text, level note, design ref)
P = {
    "C01": ("exploration", "runtime round-trip monitor over spec-driven generated packets (Debug + byte equality)",
            "Runs the real encoder/decoder on generated in-domain packets of all 73 kinds in both size modes and checks decode(encode(p)) == p and encode(decode(f)) == f; held on the executions listed in the evidence, wide fields sampled.",
            "In-domain is defined by the generator (ref/insim_v9.spec domains); packets compared by Debug rendering + frame bytes because they lack PartialEq.", "4/C01"),
    "C02": ("exploration", "differential monitor: real codec vs independent table-driven reference codec",
            "Every kind's frame is compared byte-for-byte with the image built by a reference codec interpreting an independent transcription of InSim v9 / relay; reference-built frames are decoded and compared with the typed value. Per-field perturbation names the offending field.",
            "Trusted base is ref/insim_v9.spec (my transcription of InSim.txt; the document itself is not in the sandbox). Unpinned items (IP octet order, SSP/SSG unit, signedness of Steer/Accel) are listed in the evidence.", "4/C02"),
    "C03": ("exploration", "runtime well-formedness monitor on encoder output incl. hostile counts/lengths and decoded-origin packets; Mode::encode_length enumerated over all lengths; re-run under a format-everything tracing subscriber",
            "Encodes packets of every kind with counts 0..255 and texts 0..2x width in both modes under a panic monitor; every Ok frame is checked for length/size byte/count byte/self-decoding; panics accepted only for packets the specification cannot represent.",
            "Representability comes from ref/insim_v9.spec sizes and maxima.", "4/C03"),
    "C04": ("exploration", "hostile-input runtime monitor on the decoder (panic + buffer before/after oracle) with hang journal; Mode::decode_length enumerated; re-run under a tracing subscriber; Miri underneath",
            "Feeds header matrices, every-byte mutations of valid frames of every kind, truncations/extensions and random buffers to the real decoder; checks totality, exact consumption of the announced frame and independence from trailing bytes. Thorough adds Miri shards.",
            "Reference framer (10 lines) defines the announced length; uncompressed lengths >=4 not divisible by 4 may be framed or refused.", "4/C04"),
    "C05": ("fault_enumeration", "event-log monitor over scripted transports: all partitions of short streams, sampled long sessions, injected transient errors; conservation via buffer hook; loopback TCP sessions over Builder-made connections; re-run under a tracing subscriber; Miri underneath",
            "Drives both Framed implementations over an in-memory transport with every segmentation of short streams and hostile random segmentations of sessions > 6120 bytes, injecting transient errors, and checks the read results against the reference framing, byte conservation (hook) and blocking==tokio.",
            "Transport scripts model TCP-like byte streams; the conservation sub-check needs the verif-hooks feature.", "4/C05"),
    "C06": ("fault_enumeration", "event-log monitor: bytes accepted by a scripted short-writing / Pending / buffering (flush-scripted) transport vs encoder frames; loopback TCP and back-pressured WebSocket peers; re-run under a tracing subscriber; Miri underneath",
            "All compositions of short frames into per-call accepted counts, random acceptance for long frames, Pending/Interrupted injection; the accepted byte log must equal the concatenation of the encoded frames of the successful writes.",
            "Scripted transport accepts 1..offered bytes per call; write errors end the session's obligations.", "4/C06"),
    "C07": ("exploration", "event-log monitor: outgoing bytes interleaved with read results (exactly-once / only-keepalive / ordering), incl. cancelled reads and buffering transports; maybe_pong enumerated; loopback TCP over Builder-made connections; re-run under a tracing subscriber; Miri underneath",
            "All 30 TINY sub-types x ReqI 0..255 plus histories with keep-alives interleaved with every other kind, random segmentation, both implementations and modes; the outgoing log must hold exactly one TINY_NONE per keep-alive written before that keep-alive is returned.",
            "Outgoing order is observed at the scripted transport (client boundary).", "4/C07"),
    "C08": ("exploration", "runtime monitor over real loopback UDP sockets (hand-built and Builder-made connections, async and synchronous adaptor entry points) with kernel-queue observation / in-order sentinels deciding loss; ASan underneath",
            "Long datagram sessions (>> 6120 bytes, sizes 4..1020, several packets per datagram) through both UDP adaptors on real loopback sockets; delivered packets must equal the sent ones in order; loss is decided by observing an empty kernel queue while packets are owed.",
            "Kernel-level loss on loopback assumed absent (bursts far below SO_RCVBUF).", "4/C08"),
    "C09": ("exploration", "exhaustive runtime check over scripted connections, Builder-made loopback connections and the public comparison helper; re-run under a tracing subscriber",
            "All 256 version bytes x {on, off} x {blocking, tokio} x positions x modes, and every other kind in both settings.",
            "VER frames are built by hand (fixed 20-byte layout).", "4/C09"),
    "C10": ("exploration", "table-conformance monitor against independent Microsoft codepage tables (CPython codecs), plus round-trip/totality workloads",
            "Every entry of the agreement core of the ten codepage tables is decoded after its marker; encoder output is decoded by a 40-line reference decoder; faithfulness, ASCII pass-through, '?' replacement and totality on hostile byte strings.",
            "Authority = ref/codepages/*.tsv generated from CPython's cp125x/932/936/949/950 codecs restricted to the agreement core with the WHATWG encoding of the same name.", "4/C10"),
    "C11": ("exploration", "runtime monitor on the text field's byte range located through the spec table",
            "Every text-bearing field x lengths 0..2N around its width x ASCII/single-byte/double-byte/marker-inserting text: exact width, NUL padding, multiple-of-4 for variable fields, terminating NUL for MST/MSX/MSL/MTC, decode stops at first NUL.",
            "Field positions/widths from ref/insim_v9.spec.", "4/C11"),
    "C12": ("exploration", "exhaustive small-alphabet and token-level + random runtime check with reference tokeniser/stripper",
            "All strings up to length 6 (quick 4) over 20 class representatives, all strings of up to 6 (quick 5) multi-character tokens, every BMP character whose encoded form ends in byte 0x5E before every marker letter and digit, plus random Unicode strings: unescape(escape(s)) == s, escaped output wire-safe, escape->codepage encode->decode->unescape chain, strip == 10-line reference and idempotent.",
            "Class-representative alphabet; longer strings sampled.", "4/C12"),
    "C13": ("exploration", "exhaustive runtime enumeration (thorough: all 2^32 values) against an independent classifier",
            "Thorough enumerates every 4-byte value on 16 threads in both profiles; quick enumerates all 2^24 NUL-terminated values (every built-in shape) plus 2e7 others.",
            "InSim v9 vehicle rule as stated in the property.", "4/C13"),
    "C14": ("exploration", "exhaustive runtime enumeration of the shaped 6-byte space + per-variant table monitor",
            "Every enum variant (parsed from the declaration at build time) is checked for code/wire/flags/distance/licence coherence; the whole shaped space, all single-byte mutations of wire forms and random values are decoded to establish injectivity and the exact decodable set.",
            "Variant list parsed from the enum source by build.rs.", "4/C14"),
    "C15": ("exploration", "exhaustive (8/16-bit) and boundary-biased (32-bit) runtime checks in both arithmetic profiles",
            "All 256 race-length bytes, all 65536 values of each 16-bit time field, boundary-biased 32-bit samples; encode side with durations/laps/hours up to and beyond range: exact floor or refusal, never a different valid value. Thorough also runs the as-shipped (wrapping) profile.",
            "Field units from ref/insim_v9.spec (UCO/CSC hundredths, SSP/SSG unit unpinned).", "4/C15"),
    "C16": ("exploration", "exhaustive small-alphabet + random runtime check with hang journal; order axioms on all pairs/triples",
            "All strings up to length 6 (quick 5) over 12 class representatives, all LFS-shaped 8-byte wire forms through the VER packet, random ASCII/Unicode strings; print/re-parse, case-insensitivity, Eq/Ord consistency, antisymmetry and transitivity on a pool.",
            "Hang decided by journal + isolated re-run, not by a deadline.", "4/C16"),
    "C17": ("exploration", "runtime round-trip / truncation / hostile-count monitor over the in-memory parsers and every disk entry point, with allocation monitor and hang journal; Miri underneath",
            "Generated PTH/SMX structures incl. NaN payloads round-trip byte-exactly; every strict prefix of valid files must be rejected; hostile counts and mutated/random inputs must return without panic and within an allocation bound measured by a counting global allocator.",
            "Allocation bound 64 x input + 64 KiB.", "4/C17"),
    "C18": ("exploration", "reference-model monitor of the builder (random call sequences incl. crate-level shortcuts, relay-first orders, out-of-range options) + real loopback TCP/UDP peers; ASan underneath",
            "Exhaustive flag states and random setter sequences against a plain-struct reference model of the builder; the bytes received by loopback peers after connect_blocking/connect_async must be exactly the reference ISI image in the configured mode.",
            "Relay endpoints cannot be dialled offline and are excluded.", "4/C18"),
    "C19": ("fault_enumeration", "hand-polled futures over scripted async transports (read, write and flush suspension points) with every single/double drop point enumerated; event-log checker; select!-loop sessions over real TCP/UDP/WebSocket; re-run under a tracing subscriber; Miri underneath",
            "Every poll index (and every pair) at which the read future is dropped for short sessions with Pending/partial scripts on both halves, random multi-drop plans for long sessions; completed reads and outgoing bytes must equal the uninterrupted session.",
            "Cooperative single-task schedules only (the library has no threads); suspension points are the transport's Pending returns.", "4/C19"),
    "C20": ("exploration", "runtime monitor over a real loopback tungstenite server incl. close races and back-pressure (4 KiB socket buffers, stalled peer, cancelled reads and writes); re-run under a tracing subscriber; ASan underneath",
            "Frame streams partitioned into binary messages in every way that matters (one/many/split/oversize/empty, interleaved text/ping/pong), server-side close; results must equal the reference framing; writes observed as one binary message each.",
            "Loopback websocket instead of isrelay.lfs.net.", "4/C20"),
}

# properties whose checks are implemented and silent/triaged on the current tree
CLAIMED = json.load(open(os.path.join(ROOT, "tools", "claimed.json")))


def main():
    try:
        commits = subprocess.run(["git", "-C", "/repo", "log", "--format=%h %s", "--grep=verif-hooks"], capture_output=True, text=True).stdout.strip().splitlines()
    except Exception:
        commits = []
    checks = []
    for pid in sorted(P):
        if pid not in CLAIMED:
            continue
        cat, tech, text, note, ref = P[pid]
        checks.append({
            "property_id": pid,
            "quick_cmd": f"./check {pid} quick",
            "thorough_cmd": f"./check {pid} thorough",
            "evidence_file": f"/verif/evidence/{pid}.json",
            "replay_cmd_template": f"./check {pid} quick --replay {{path}}",
            "engine": "ivh",
            "level_claimed": {"category": cat, "text": text, "design_ref": f"DESIGN.md section {ref}"},
            "level_note": note,
            "technique": tech,
        })
    na = [{"property_id": pid, "reason": "check not yet registered in this snapshot: its monitor is designed (DESIGN.md section 4) but not yet built/validated; it is not claimed until it runs silently on the tree"}
          for pid in sorted(P) if pid not in CLAIMED]
    m = {
        "version": 1,
        "setup_cmd": "cd /verif/harness && CARGO_NET_OFFLINE=true cargo build --offline --profile checked --bin vcheck && CARGO_NET_OFFLINE=true cargo build --offline --release --bin vcheck",
        "hooks": {
            "guard": "cargo feature `verif-hooks` on crate insim (off by default)",
            "enable": "the harness crate /verif/harness depends on /repo/insim by path with features=[\"verif-hooks\"]",
            "baseline_off_cmd": "cd /repo && cargo test --workspace --no-fail-fast --offline",
            "source_commits": [c.split()[0] for c in commits],
            "add_only": True,
        },
        "engines": [{"name": "ivh", "path": "/verif/harness", "serves_properties": sorted(CLAIMED),
                     "kind_free_text": "Rust harness crate: workload generators, scripted transports, loopback peers, reference models, offline event-log checkers, evidence writer; driven by /verif/check which also runs the traced, release, Miri and ASan stages"}],
        "checks": checks,
        "notes": "Runtime monitoring family: every verdict comes from executing the real crates under generated/enumerated/hostile workloads while monitors compare with small independent oracles. Exit 2 + INCONCLUSIVE line = harness/tool failure, never folded into pass or violation. known_findings.json lists open findings and fixed: records.",
        "not_applicable": na,
    }
    json.dump(m, open(os.path.join(ROOT, "MANIFEST.json"), "w"), indent=1)
    print("claimed:", sorted(CLAIMED))


if __name__ == "__main__":
    main()
