#!/usr/bin/env python3
"""Self-validation: run checks against known-bad variants of the repository, on scratch copies.

  selftest.py <patch-or-dir> [<Cxx> ...] [--tier quick|thorough] [--keep]
  selftest.py --all [filters] [--props C02,C07]   every mutants/*.patch and seeded/*/patch.diff (path contains a filter)
                               with the properties named in its header/meta (restricted to --props)

Nothing under /repo or /verif is touched: /repo's working tree and /verif (tracked files + ref/) are copied
to a scratch directory, the harness's path dependencies are pointed at the scratch repository, the patch is
applied there, and the scratch copy of ./check is run. Prints one line per (patch, property):
  CAUGHT / MISSED / INCONCLUSIVE / PATCH-FAILED, and writes mutants/RESULTS.json.
"""
import json
import os
import re
import shutil
import subprocess
import sys
import time

ROOT = os.path.dirname(os.path.dirname(os.path.abspath(__file__)))
SCRATCH = os.environ.get("IVH_SCRATCH", "/tmp/ivh_selftest")


def sh(cmd, cwd=None, env=None, timeout=None):
    return subprocess.run(cmd, cwd=cwd, env=env, stdout=subprocess.PIPE, stderr=subprocess.STDOUT, text=True, timeout=timeout)


def prepare(scratch):
    repo = os.path.join(scratch, "repo")
    verif = os.path.join(scratch, "verif")
    os.makedirs(scratch, exist_ok=True)
    if not os.path.exists(repo):
        sh(["rsync", "-a", "--exclude", "target", "--exclude", ".git", "/repo/", repo + "/"])
        sh(["git", "init", "-q"], cwd=repo)
        sh(["git", "add", "-A"], cwd=repo)
        sh(["git", "-c", "user.email=s@t", "-c", "user.name=s", "commit", "-qm", "base"], cwd=repo)
    else:
        sh(["git", "checkout", "-q", "--", "."], cwd=repo)
        sh(["git", "clean", "-fdq"], cwd=repo)
        # follow /repo's working tree (new fix commits) without losing the build cache
        # content comparison, and no time stamps copied: a file reverted by the checkout above is newer than the last
        # build (which contained the previous patch) and must stay newer, or cargo would reuse that build
        sh(["rsync", "-a", "-c", "--no-times", "--exclude", "target", "--exclude", ".git", "--delete", "/repo/", repo + "/"])
        sh(["git", "add", "-A"], cwd=repo)
        sh(["git", "-c", "user.email=s@t", "-c", "user.name=s", "commit", "-qm", "sync"], cwd=repo)
    os.makedirs(verif, exist_ok=True)
    sh(["rsync", "-a", "-c", "--no-times", "--delete", "--exclude", "target*", "--exclude", ".git", "--exclude", "evidence", "--exclude", "seeded", ROOT + "/", verif + "/"])
    os.makedirs(os.path.join(verif, "evidence"), exist_ok=True)
    for f in ["harness/Cargo.toml"]:
        p = os.path.join(verif, f)
        s = open(p).read().replace('path = "/repo/', f'path = "{repo}/')
        open(p, "w").write(s)
    # hard-coded shipped-file paths
    p = os.path.join(verif, "harness/src/checks/c17.rs")
    s = open(p).read().replace('"/repo/', f'"{repo}/')
    open(p, "w").write(s)
    return repo, verif


def props_of(patch_path):
    d = os.path.dirname(patch_path)
    meta = os.path.join(d, "meta.json")
    if os.path.basename(patch_path) == "patch.diff" and os.path.exists(meta):
        m = json.load(open(meta))
        p = m.get("property") or m.get("properties")
        return [p] if isinstance(p, str) else list(p)
    head = open(patch_path).read(2000)
    m = re.search(r"^# properties?: (.*)$", head, re.M)
    return m.group(1).replace(",", " ").split() if m else []


def baseline_key(patch_path):
    import hashlib
    head = sh(["git", "-C", "/repo", "rev-parse", "HEAD"]).stdout.strip()
    body = "".join(l for l in open(patch_path) if not l.startswith("#"))
    return hashlib.sha256((head + "\n" + body).encode()).hexdigest()[:24]


def run_one(patch_path, props, tier, repo, verif, baseline=True, cache=None):
    out = []
    key = baseline_key(patch_path)
    if cache is not None and cache.get(key) == "ok":
        baseline = False  # this exact patch on this exact repository commit already passed the 58 baseline tests
    sh(["git", "checkout", "-q", "--", "."], cwd=repo)
    sh(["git", "clean", "-fdq"], cwd=repo)
    r = sh(["git", "apply", "--whitespace=nowarn", patch_path], cwd=repo)
    if r.returncode != 0:
        r2 = sh(["patch", "-p1", "-i", patch_path], cwd=repo)
        if r2.returncode != 0:
            return [(p, "PATCH-FAILED", r.stdout.strip()[:200]) for p in props]
    env = dict(os.environ, VERIF_ROOT=verif, IVH_REPO=repo, CARGO_NET_OFFLINE="true")
    if baseline:
        # the variant must still compile and pass the repository's own test suite
        t = sh(["cargo", "test", "--workspace", "--no-fail-fast", "--offline"], cwd=repo, env=env, timeout=3600)
        oks = len(re.findall(r"test result: ok", t.stdout))
        bad = re.findall(r"test result: FAILED|error(?:\[E\d+\])?: ", t.stdout)
        passed = sum(int(x) for x in re.findall(r"test result: ok\. (\d+) passed", t.stdout))
        if bad or t.returncode != 0 or passed < 58:
            sh(["git", "checkout", "-q", "--", "."], cwd=repo)
            return [(p, "BASELINE-FAILS", f"cargo test: {passed} passed, rc={t.returncode}, {bad[:2]}") for p in props]
        if cache is not None:
            cache[key] = "ok"
    for pid in props:
        t0 = time.time()
        r = sh([os.path.join(verif, "check"), pid, tier], cwd=verif, env=env, timeout=4 * 3600)
        lines = [l for l in r.stdout.splitlines() if l.startswith("VIOLATION") or l.strip().startswith("violation[")]
        first = next((l.strip() for l in r.stdout.splitlines() if l.strip().startswith("violation[")), "")
        verdict = {0: "MISSED", 1: "CAUGHT", 2: "INCONCLUSIVE"}.get(r.returncode, f"EXIT{r.returncode}")
        if verdict == "INCONCLUSIVE":
            first = next((l for l in r.stdout.splitlines() if "INCONCLUSIVE" in l or l.startswith("error")), "")[:300]
        out.append((pid, verdict, f"{len([l for l in lines if l.startswith('VIOLATION')])} signature(s); {first[:260]} [{time.time() - t0:.0f}s]"))
    sh(["git", "checkout", "-q", "--", "."], cwd=repo)
    return out


def main():
    args = sys.argv[1:]
    tier = "quick"
    keep = False
    if "--tier" in args:
        i = args.index("--tier")
        tier = args[i + 1]
        del args[i:i + 2]
    if "--keep" in args:
        keep = True
        args.remove("--keep")
    only_props = None
    if "--props" in args:  # restrict an --all run to these properties (e.g. after their checks changed)
        i = args.index("--props")
        only_props = set(args[i + 1].replace(",", " ").split())
        del args[i:i + 2]
    jobs = []
    if args and args[0] == "--all":
        md = os.path.join(ROOT, "mutants")
        for f in sorted(os.listdir(md)):
            if f.endswith(".patch"):
                jobs.append((os.path.join(md, f), None))
        sd = os.path.join(ROOT, "seeded")
        if os.path.isdir(sd):
            for d in sorted(os.listdir(sd)):
                pf = os.path.join(sd, d, "patch.diff")
                if os.path.exists(pf):
                    jobs.append((pf, None))
        only = args[1:]
        if only:
            jobs = [j for j in jobs if any(o in j[0] for o in only)]
    else:
        path = args[0]
        if os.path.isdir(path):
            path = os.path.join(path, "patch.diff")
        jobs.append((os.path.abspath(path), args[1:] or None))
    repo, verif = prepare(SCRATCH)
    results = {}
    rf = os.path.join(ROOT, "mutants", "RESULTS.json")
    if os.path.exists(rf):
        try:
            results = json.load(open(rf))
        except Exception:
            results = {}
    for patch, props in jobs:
        props = props or props_of(patch)
        if only_props is not None:
            props = [x for x in props if x in only_props]
            if not props:
                continue
        name = os.path.relpath(patch, ROOT)
        if not props:
            print(f"{name}: no properties named", flush=True)
            continue
        for pid, verdict, detail in run_one(patch, props, tier, repo, verif, cache=results.setdefault("_baseline_ok", {})):
            print(f"{verdict:13s} {name} {pid} :: {detail}", flush=True)
            results.setdefault(name, {})[pid] = {"verdict": verdict, "tier": tier, "detail": detail}
        json.dump(results, open(rf, "w"), indent=1, sort_keys=True)
    if not keep:
        pass  # the scratch copy keeps its build cache between runs; remove it with: rm -rf /tmp/ivh_selftest
    return 0


if __name__ == "__main__":
    sys.exit(main())
