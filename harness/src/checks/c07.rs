//! C07 — Keep-alive requests are answered exactly once, and only they are.

use rayon::prelude::*;
use serde_json::json;

use crate::{
    corpus::{mode_name, Corpus, MODES},
    ctx::{hex, Ctx, Part},
    refspec::{limit, GenOpts, TextMode},
    sess::{run_read_case, ReadCase, ReadOutcome},
    transport::{ref_frames, runtime, Ev, Impl, RAct, ReadResult, WAct},
};

use super::c05::{random_plan, IMPLS};

fn is_keepalive_frame(f: &[u8]) -> bool {
    f.len() == 4 && f[1] == 3 && f[2] == 0 && f[3] == 0
}

fn reply_frame(compressed: bool) -> [u8; 4] {
    if compressed {
        [1, 3, 0, 0]
    } else {
        [4, 3, 0, 0]
    }
}

pub fn judge(case: &ReadCase, which: Impl, o: &ReadOutcome, p: &mut Part) {
    let (frames, _) = ref_frames(&case.stream, case.compressed);
    let sig = |w: &str| format!("C07/{}/{w}", which.name());
    let replay = || {
        json!({"impl": which.name(), "mode": mode_name(case.compressed), "label": case.label, "incoming": hex(&case.stream[..case.stream.len().min(2048)]), "outgoing": hex(&o.written[..o.written.len().min(512)]),
               "read_plan": format!("{:?}", &case.read_plan[..case.read_plan.len().min(48)]), "write_plan": format!("{:?}", &case.write_plan[..case.write_plan.len().min(48)])})
    };
    if o.runaway {
        p.violation(sig("runaway"), format!("[{}] session did not terminate", case.label), replay());
        return;
    }
    // walk the event log: bytes accepted by the transport between consecutive ReadReturns
    let mut since_last: Vec<u8> = vec![];
    let mut written_pos = 0usize;
    let mut frame_idx = 0usize;
    let mut keepalives_returned = 0usize;
    let reply = reply_frame(case.compressed);
    // on a buffering transport the reply is on the wire when a flush has moved it there
    let buffered = case.flush > 0 && which == Impl::Tokio;
    for ev in &o.events {
        match ev {
            Ev::TWrite { .. } if buffered => {},
            Ev::TFlush { moved } => {
                since_last.extend_from_slice(&o.written[written_pos..written_pos + moved]);
                written_pos += moved;
            },
            Ev::TWrite { accepted, .. } => {
                since_last.extend_from_slice(&o.written[written_pos..written_pos + accepted]);
                written_pos += accepted;
            },
            Ev::ReadReturn(r) => {
                let consumed_frame = !matches!(r, ReadResult::Disconnected | ReadResult::Io(_) | ReadResult::Timeout);
                let ka = consumed_frame && frames.get(frame_idx).map(|f| is_keepalive_frame(f)).unwrap_or(false);
                if ka {
                    keepalives_returned += 1;
                    if since_last != reply {
                        let what = if since_last.is_empty() {
                            "keepalive-not-answered-before-return"
                        } else if since_last.len() > 4 && since_last.chunks(4).all(|c| c == reply) {
                            "keepalive-answered-more-than-once"
                        } else {
                            "keepalive-reply-malformed"
                        };
                        p.violation(
                            sig(what),
                            format!("{} {} [{}]: frame #{frame_idx} is a keep-alive; bytes written before it was handed to the caller: {} (expected {})", which.name(), mode_name(case.compressed), case.label, hex(&since_last), hex(&reply)),
                            replay(),
                        );
                        return;
                    }
                } else if !since_last.is_empty() {
                    p.violation(
                        sig("wrote-in-response-to-non-keepalive"),
                        format!(
                            "{} {} [{}]: {} bytes ({}) were written before result #{frame_idx} ({}) which is not a keep-alive",
                            which.name(),
                            mode_name(case.compressed),
                            case.label,
                            since_last.len(),
                            hex(&since_last[..since_last.len().min(16)]),
                            frames.get(frame_idx).map(|f| hex(&f[..f.len().min(8)])).unwrap_or_else(|| "end of stream".into())
                        ),
                        replay(),
                    );
                    return;
                }
                since_last.clear();
                if consumed_frame {
                    frame_idx += 1;
                }
            },
            _ => {},
        }
    }
    let expected_replies = frames.iter().filter(|f| is_keepalive_frame(f)).count();
    if o.written.len() != 4 * expected_replies || keepalives_returned != expected_replies {
        p.violation(
            sig("reply-count"),
            format!("{} [{}]: {expected_replies} keep-alives received, {} returned to the caller, {} reply bytes on the wire", which.name(), case.label, keepalives_returned, o.written.len()),
            replay(),
        );
    }
}

fn run_both(case: &ReadCase, p: &mut Part) {
    for which in IMPLS {
        p.evaluations += 1;
        let o = run_read_case(which, case);
        judge(case, which, &o, p);
    }
}

/// The same history on a connection whose user first tried to send packets that cannot be encoded: the failed writes must
/// not leave anything behind that a later read would put on the wire.
fn run_both_after_refused_writes(case: &ReadCase, n: usize, p: &mut Part) {
    for which in IMPLS {
        p.evaluations += 1;
        let mut c2 = case.clone();
        c2.label = format!("{}-after-{n}-refused-writes", case.label);
        let o = crate::sess::run_read_case_pre(which, &c2, n);
        judge(&c2, which, &o, p);
    }
}

pub fn run(ctx: &mut Ctx) -> (&'static str, String, bool) {
    let c = match Corpus::load() {
        Ok(c) => c,
        Err(e) => {
            ctx.inconclusive(format!("cannot load the reference specification: {e}"));
            return ("exploration", "spec missing".into(), false);
        },
    };
    let c = &c;
    let miri = ctx.stage.as_deref() == Some("miri");
    let (shard, nshards) = ctx.shard;
    let base_rng = ctx.rng.fork(7);

    // ---- exhaustive: every TINY sub-type byte x every request id, as a single-packet history -----
    let parts: Vec<Part> = (0u32..256)
        .into_par_iter()
        .map(|subt| {
            let rt = runtime();
            let _g = rt.enter();
            let mut p = Part::new();
            if miri && ((subt as u64) % nshards != shard || subt >= 32) {
                return p;
            }
            for reqi in 0u32..256 {
                if miri && ![0, 1, 255].contains(&reqi) {
                    continue;
                }
                for compressed in MODES {
                    let f = [if compressed { 1u8 } else { 4 }, 3, reqi as u8, subt as u8];
                    // preceded and followed by a non-keepalive so that ordering is visible
                    let ping = [f[0], 3, 9, 3];
                    let stream = [&ping[..], &f[..], &ping[..]].concat();
                    let case = ReadCase { compressed, stream, read_plan: vec![], default_read: 0, write_plan: vec![WAct::Accept(1), WAct::Accept(2)], verify_version: false, flush: 0, label: format!("tiny-subt{subt}-reqi{reqi}") };
                    run_both(&case, &mut p);
                    p.distinct_extra += 2;
                }
            }
            p
        })
        .collect();
    for p in parts {
        ctx.merge(p);
    }
    ctx.extra("tiny_matrix", json!("256 sub-type bytes (30 defined + 226 undefined) x 256 request ids x 2 modes x 2 implementations"));

    // ---- histories: keep-alives interleaved with every other kind at every position ---------------
    let n = if miri { 1 } else { ctx.tier.pick(2_000u64, 60_000u64) };
    let parts: Vec<Part> = (0..n)
        .into_par_iter()
        .map(|i| {
            let rt = runtime();
            let _g = rt.enter();
            let mut p = Part::new();
            let mut r = base_rng.fork(100 + i + 31337 * shard);
            let compressed = i % 2 == 0;
            let lim = limit(compressed);
            let ka = reply_frame(compressed);
            let len = if miri { 6 } else { 1 + r.usize_below(200) };
            let mut stream = vec![];
            for _ in 0..len {
                match r.below(9) {
                    8 => {
                        // a well-framed packet the library cannot decode (unknown type / undefined enumerant): an error for
                        // the caller, nothing written, and the keep-alives behind it are answered as usual
                        let n = 4 * (1 + r.usize_below(5));
                        let mut f = r.bytes(n);
                        f[0] = if compressed { (n / 4) as u8 } else { n as u8 };
                        f[1] = if r.chance(1, 2) { 69 + r.below(150) as u8 } else { 64 };
                        stream.extend(f);
                    },
                    0 | 1 => stream.extend_from_slice(&ka),
                    2 => {
                        // near misses: TINY_NONE with non-zero reqi, other sub-types with reqi 0, SMALL_NONE reqi 0
                        match r.below(3) {
                            0 => stream.extend_from_slice(&[ka[0], 3, 1 + r.below(255) as u8, 0]),
                            1 => stream.extend_from_slice(&[ka[0], 3, 0, 1 + r.below(29) as u8]),
                            _ => stream.extend_from_slice(&[if compressed { 2 } else { 8 }, 4, 0, 0, 0, 0, 0, 0]),
                        }
                    },
                    _ => {
                        let lay = r.pick(c.kinds());
                        let o = GenOpts { text: TextMode::Ascii, max_list: Some(4), boundary: 4, hostile: false };
                        if let Some((_, f)) = c.ref_frame(&mut r, lay, &o, compressed) {
                            if f.len() <= lim {
                                stream.extend(f);
                            }
                        }
                    },
                }
            }
            let (plan, default_read) = random_plan(&mut r, &stream, compressed);
            let wplan: Vec<WAct> = (0..r.usize_below(40))
                .map(|_| match r.below(4) {
                    0 => WAct::Pending,
                    _ => WAct::Accept(1 + r.usize_below(4)),
                })
                .collect();
            let case = ReadCase { compressed, stream, read_plan: plan, default_read, write_plan: wplan, verify_version: i % 3 == 0, flush: [0, 0, 1, 2, 3][(i % 5) as usize], label: format!("history-{i}") };
            p.distinct(&case.stream);
            run_both(&case, &mut p);
            if i % 3 == 1 {
                run_both_after_refused_writes(&case, 1 + (i as usize / 3) % 3, &mut p);
            }
            if i == 0 {
                p.sample(json!({"label": "history-0", "incoming_frames": ref_frames(&case.stream, compressed).0.len(), "incoming": hex(&case.stream[..case.stream.len().min(96)])}));
            }
            p
        })
        .collect();
    for p in parts {
        ctx.merge(p);
    }

    // ---- every kind directly before and directly after a keep-alive ----------------------------------
    if !miri {
        let rt = runtime();
        let _g = rt.enter();
        let mut p = Part::new();
        let mut r = base_rng.fork(9);
        for compressed in MODES {
            let ka = reply_frame(compressed);
            for lay in c.kinds() {
                let o = GenOpts { text: TextMode::Ascii, max_list: Some(2), boundary: 4, hostile: false };
                let Some((_, f)) = c.ref_frame(&mut r, lay, &o, compressed) else { continue };
                if f.len() > limit(compressed) {
                    continue;
                }
                let stream = [&f[..], &ka[..], &f[..], &ka[..], &ka[..], &f[..]].concat();
                for seg in [0usize, 1, 5] {
                    let case = ReadCase { compressed, stream: stream.clone(), read_plan: vec![RAct::Bytes(3)], default_read: seg, write_plan: vec![], verify_version: false, flush: 0, label: format!("around-{}-seg{seg}", lay.name) };
                    run_both(&case, &mut p);
                    if seg == 5 {
                        run_both_after_refused_writes(&case, 1, &mut p);
                    }
                    p.distinct(&(compressed, &lay.name, seg));
                }
            }
        }
        ctx.merge(p);
    }
    // ---- tokio: the read that is writing a reply is dropped and re-issued (select-loop schedule) ------
    // the reply must still appear exactly once and the keep-alive must still reach the caller
    {
        use std::collections::BTreeSet;

        use super::c19::{run_session, Session};
        let mut jobs = vec![];
        for compressed in MODES {
            let k = reply_frame(compressed);
            let ping = [k[0], 3, 9, 3];
            for (label, stream) in [("ka", k.to_vec()), ("ping-ka-ping", [&ping[..], &k[..], &ping[..]].concat()), ("ka-ka-ping", [&k[..], &k[..], &ping[..]].concat())] {
                for (wp, wk, fl) in [(1usize, 1usize, 0usize), (1, 3, 0), (2, 2, 0), (0, 0, 0), (0, 0, 2), (1, 2, 3), (0, 0, 1)] {
                    // after a drop the caller: reads again / writes a packet first / performs a handshake first
                    for wad in 0..3usize {
                        jobs.push((compressed, label, stream.clone(), wp, wk, fl, wad));
                    }
                }
            }
        }
        let parts: Vec<Part> = jobs
            .par_iter()
            .enumerate()
            .map(|(ji, (compressed, label, stream, wp, wk, fl, wad))| {
                let rt = runtime();
                let _g = rt.enter();
                let mut p = Part::new();
                if miri && (ji as u64 % nshards != shard || ji >= 24) {
                    return p;
                }
                let mut wplan = vec![];
                for _ in 0..120 {
                    for _ in 0..*wp {
                        wplan.push(WAct::Pending);
                    }
                    wplan.push(WAct::Accept(if *wk == 0 { usize::MAX } else { *wk }));
                }
                let base = Session { compressed: *compressed, stream: stream.clone(), read_plan: vec![RAct::Pending], default_read: 0, write_plan: wplan, default_write: 0, drops: BTreeSet::new(), write_after_drop: *wad > 0, flush_plan: if *fl == 0 { None } else { Some((0..400).map(|i| i % fl != fl - 1).collect()) }, verify_version: false, handshake_after_drop: *wad == 2, user_writes_keepalive: false, label: format!("{label}-w{wp}x{wk}-f{fl}-{}", ["read-again", "write-first", "handshake-first"][*wad]) };
                let total = run_session(&base).polls;
                let (frames, _) = ref_frames(stream, *compressed);
                let kas = frames.iter().filter(|f| is_keepalive_frame(f)).count();
                let mut plans: Vec<BTreeSet<usize>> = (1..=total + 1).map(|k| BTreeSet::from([k])).collect();
                plans.push((1..=total + 40).collect()); // dropped after every Pending poll
                for drops in plans {
                    let mut s = base.clone();
                    s.drops = drops;
                    let o = run_session(&s);
                    p.evaluations += 1;
                    p.distinct(&(compressed, &s.label, &s.drops));
                    let handed = o.results.iter().filter(|r| matches!(r, ReadResult::Packet(d) if d.contains("subt: None") && d.contains("RequestId(0)"))).count();
                    let (out_frames, rest) = ref_frames(&o.written, *compressed);
                    let replies = out_frames.iter().filter(|f| is_keepalive_frame(f)).count();
                    let replay = json!({"mode": mode_name(*compressed), "label": s.label, "stream": hex(stream), "drops": s.drops.iter().take(64).collect::<Vec<_>>(), "outgoing": hex(&o.written), "suspended_on": o.suspended_on});
                    if o.runaway {
                        p.violation("C07/tokio/cancelled-read/runaway", format!("[{}] session did not finish after the read was dropped", s.label), replay);
                    } else if !rest.is_empty() || replies != kas || out_frames.len() != replies + o.user_frames || o.staged_left > 0 {
                        p.violation(
                            "C07/tokio/cancelled-read/reply-count",
                            format!("{} [{}]: {kas} keep-alive(s) received, read dropped after poll(s) {:?}: outgoing bytes {} hold {replies} whole reply frame(s), {} other frame(s) for {} completed user write(s) and {} stray byte(s); {} byte(s) accepted but never flushed", mode_name(*compressed), s.label, s.drops.iter().take(8).collect::<Vec<_>>(), hex(&o.written[..o.written.len().min(200)]), out_frames.len() - replies, o.user_frames, rest.len(), o.staged_left),
                            replay,
                        );
                    } else if handed != kas {
                        p.violation(
                            "C07/tokio/cancelled-read/keepalive-not-handed-over",
                            format!("{} [{}]: {kas} keep-alive(s) received and answered but {handed} handed to the caller after the read was dropped after poll(s) {:?}", mode_name(*compressed), s.label, s.drops.iter().take(8).collect::<Vec<_>>()),
                            replay,
                        );
                    }
                }
                p
            })
            .collect();
        for p in parts {
            ctx.merge(p);
        }
    }
    // ---- connections made by Builder::tcp over loopback: replies as the peer sees them --------------------------
    if !miri {
        use crate::realconn::builder_tcp_session;
        let n = ctx.tier.pick(8u64, 80u64);
        let base = base_rng.fork(7007);
        let parts: Vec<(Part, Option<String>)> = (0..n)
            .into_par_iter()
            .map(|i| {
                let mut p = Part::new();
                let mut r = base.fork(i);
                let which = if i % 2 == 0 { Impl::Blocking } else { Impl::Tokio };
                let compressed = (i / 2) % 2 == 0;
                let target = 300 + r.usize_below(8000);
                let stream = super::c05::make_stream(c, &mut r, compressed, target, i % 3 == 0);
                match builder_tcp_session(c, &mut r, which, compressed, stream, 0) {
                    Ok(o) => {
                        p.evaluations += 1;
                        p.distinct(&(which.name(), &o.stream));
                        p.count("builder_tcp_sessions", 1);
                        p.count("builder_tcp_keepalives", o.keepalives as u64);
                        let reply = reply_frame(compressed);
                        let ok = o.outgoing.len() == 4 * o.keepalives && o.outgoing.chunks(4).all(|c| c == reply);
                        if !ok {
                            p.violation(
                                format!("C07/{}/builder-tcp/replies-differ", which.name()),
                                format!("{}: {} keep-alives in the stream; the peer received {} bytes: {}", o.label, o.keepalives, o.outgoing.len(), hex(&o.outgoing[..o.outgoing.len().min(48)])),
                                json!({"label": o.label, "keepalives": o.keepalives, "outgoing": hex(&o.outgoing[..o.outgoing.len().min(512)]), "stream_head": hex(&o.stream[..o.stream.len().min(256)])}),
                            );
                        }
                        (p, None)
                    },
                    Err(e) => (p, Some(e)),
                }
            })
            .collect();
        for (p, e) in parts {
            ctx.merge(p);
            if let Some(e) = e {
                ctx.inconclusive(format!("builder TCP session could not be judged: {e}"));
            }
        }
    }
    // ---- the public detection helper itself: Packet::maybe_pong on every TINY and on every other kind ----------
    {
        use crate::corpus::{real_decode, real_encode, Dec, Enc};
        let mut p = Part::new();
        let mut r = base_rng.fork(7070);
        let judge_one = |frame: &[u8], what: &str, p: &mut Part| {
            let Dec::Packet(pk, _) = real_decode(frame, true) else { return };
            p.evaluations += 1;
            p.distinct(&("maybe_pong", frame));
            let want = is_keepalive_frame(frame);
            match crate::ctx::guarded(|| pk.maybe_pong()) {
                Ok(Some(reply)) => {
                    let bytes = match real_encode(&reply, true) {
                        Enc::Ok(b) => b,
                        _ => vec![],
                    };
                    if !want {
                        p.violation("C07/maybe-pong/reply-to-non-keepalive", format!("maybe_pong() offers a reply to {what} ({})", hex(&frame[..frame.len().min(8)])), json!({"frame": hex(frame)}));
                    } else if bytes != reply_frame(true) {
                        p.violation("C07/maybe-pong/reply-is-not-tiny-none", format!("maybe_pong() answers a keep-alive with {}", hex(&bytes)), json!({"frame": hex(frame)}));
                    }
                },
                Ok(None) => {
                    if want {
                        p.violation("C07/maybe-pong/keepalive-not-recognised", "maybe_pong() offers no reply to TINY_NONE with request id 0".to_string(), json!({"frame": hex(frame)}));
                    }
                },
                Err(pn) => p.violation("C07/maybe-pong/panic", format!("maybe_pong() panicked on {what}: {pn}"), json!({"frame": hex(frame)})),
            }
        };
        for subt in 0u16..256 {
            for reqi in 0u16..256 {
                if miri && (subt >= 32 || ![0, 1, 255].contains(&reqi) || subt as u64 % nshards != shard) {
                    continue;
                }
                judge_one(&[1, 3, reqi as u8, subt as u8], &format!("TINY sub-type {subt} request id {reqi}"), &mut p);
            }
        }
        for (ki, lay) in c.kinds().iter().enumerate() {
            if miri && ki as u64 % (4 * nshards) != shard {
                continue;
            }
            for _ in 0..if miri { 1 } else { 4 } {
                let o = GenOpts { text: TextMode::Ascii, max_list: Some(2), boundary: 6, hostile: false };
                if let Some((_, f)) = c.ref_frame(&mut r, lay, &o, true) {
                    judge_one(&f, &format!("a {} packet", lay.name), &mut p);
                }
            }
        }
        ctx.merge(p);
    }
    ctx.assume("a keep-alive is the 4-byte frame type 3, ReqI 0, SubT 0; the reply is observed as bytes accepted by the scripted transport between two consecutive read returns");
    (
        "exploration",
        "every TINY sub-type byte 0..255 x ReqI 0..255 as a history ping/X/ping (exhaustive) x {blocking,tokio} x both modes with the reply written in 1- and 2-byte pieces; random histories of 1..200 frames mixing keep-alives, near-misses and every other kind under hostile read segmentation, short/Pending writes and verify_version on/off; every kind directly before/after keep-alives; tokio: short keep-alive histories with the read future dropped after every single poll and after all Pending polls while the reply is written in pieces; connections made by Builder::tcp over loopback with the replies collected by the peer; distinct = distinct histories".into(),
        true,
    )
}
