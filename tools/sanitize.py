#!/usr/bin/env python3
"""Sanitizer stages for ./check (thorough tier).

  sanitize.py miri <Cxx> <nshards> <seed>   cargo +nightly miri run, sharded into processes (Miri is single-threaded)
  sanitize.py asan <Cxx> 1 <seed>           nightly -Zsanitizer=address build of the harness, real-socket workloads

Exit: 0 no report | 1 sanitizer report (VIOLATION line printed, replay file = the shard's argv + the tool's report)
      2 inconclusive (tool could not run, unsupported operation, watchdog)
The monitors of the property run inside the same processes, so a behavioural violation in a shard is
reported by the harness itself (exit 1) and propagates.
"""
import json
import os
import re
import subprocess
import sys
import time
from concurrent.futures import ThreadPoolExecutor

ROOT = os.path.dirname(os.path.dirname(os.path.abspath(__file__)))
HARNESS = os.path.join(ROOT, "harness")
EVID = os.path.join(ROOT, "evidence")
ENV = dict(os.environ, CARGO_NET_OFFLINE="true", CARGO_TERM_COLOR="never")
ENV.setdefault("VERIF_ROOT", ROOT)
SHARD_TIMEOUT = 3 * 3600


def say(*a):
    print(*a, flush=True)


def write_part(pid, name, tool, evaluations, wall, violations, extra=None, sigs=None):
    os.makedirs(os.path.join(EVID, "parts"), exist_ok=True)
    doc = {
        "property_id": pid, "tier": "thorough", "seed": 0, "level": "other",
        "coverage": {"explanation": f"{tool} stage summary", "tool": tool, "evaluations": evaluations, "distinct_nontrivial": 0,
                     "counters": extra or {}, "violation_signatures": sigs or []},
        "wall_s": round(wall, 1), "violations": violations,
    }
    json.dump(doc, open(os.path.join(EVID, "parts", f"{pid}-{name}.json"), "w"), indent=1)


def replay_file(pid, name, argv, report):
    os.makedirs(os.path.join(EVID, "replay"), exist_ok=True)
    path = os.path.join(EVID, "replay", f"{pid}-{name}.json")
    json.dump({"property": pid, "stage": name, "argv": argv, "report": report[-6000:]}, open(path, "w"), indent=1)
    return path


def shard_counts(pid, stage, i, n):
    f = os.path.join(EVID, "parts", f"{pid}-{stage}-{i}of{n}.json")
    try:
        d = json.load(open(f))
        return d["coverage"].get("evaluations", 0), d.get("violations", 0)
    except Exception:
        return None, None


def miri(pid, nshards, seed):
    t0 = time.time()
    env = dict(ENV, MIRIFLAGS="-Zmiri-disable-isolation -Zmiri-ignore-leaks -Zmiri-tree-borrows", RAYON_NUM_THREADS="1",
               CARGO_TARGET_DIR=os.path.join(HARNESS, "target-miri"))
    # build once (also builds the miri sysroot if needed); a failure here is inconclusive
    b = subprocess.run(["cargo", "+nightly", "miri", "run", "--offline", "--bin", "vcheck", "--", "--help"], cwd=HARNESS, env=env,
                       stdout=subprocess.PIPE, stderr=subprocess.STDOUT, text=True)
    if "usage: vcheck" not in b.stdout:
        say(b.stdout[-3000:])
        say(f"INCONCLUSIVE property={pid} reason=miri build/startup failed")
        write_part(pid, "miri", "miri", 0, time.time() - t0, 0, {"startup_failed": 1})
        return 2

    def one(i):
        argv = ["cargo", "+nightly", "miri", "run", "--offline", "--bin", "vcheck", "--", pid, "--tier", "thorough", "--seed", str(seed), "--stage", "miri", "--shard", f"{i}/{nshards}"]
        ts = time.time()
        try:
            r = subprocess.run(argv, cwd=HARNESS, env=env, stdout=subprocess.PIPE, stderr=subprocess.STDOUT, text=True, timeout=SHARD_TIMEOUT)
            return i, argv, r.returncode, r.stdout, time.time() - ts
        except subprocess.TimeoutExpired as e:
            out = e.stdout.decode("utf8", "replace") if isinstance(e.stdout, bytes) else (e.stdout or "")
            return i, argv, -9, out, time.time() - ts

    worst = 0
    total_eval = 0
    reports = 0
    sigs = []
    with ThreadPoolExecutor(max_workers=min(16, nshards)) as ex:
        for i, argv, code, out, wall in ex.map(one, range(nshards)):
            ev, _ = shard_counts(pid, "miri", i, nshards)
            total_eval += ev or 0
            tail = "\n".join(l for l in out.splitlines() if l.startswith("[") or "VIOLATION" in l or "INCONCLUSIVE" in l or l.startswith("error"))
            say(f"[miri shard {i}/{nshards}] exit={code} wall={wall:.0f}s evaluations={ev}\n{tail}")
            ub = re.search(r"error: Undefined Behavior.*|error: memory leaked.*|error: deadlock.*|error: .*data race.*", out)
            unsupported = re.search(r"error: unsupported operation.*|error: abnormal termination.*", out)
            if ub:
                reports += 1
                first_frame = re.search(r"-->\s*(\S+)", out[ub.start():])
                sig = f"{pid}/miri/{ub.group(0)[:80]}"
                sigs.append(sig)
                path = replay_file(pid, f"miri-{i}of{nshards}", argv, out)
                say(f"  miri report: {ub.group(0)} at {first_frame.group(1) if first_frame else '?'}")
                say(f"VIOLATION property={pid} replay={path}")
                worst = 1
            elif code == 1:
                worst = 1  # the harness' own monitors reported (VIOLATION line already in the output)
                for l in out.splitlines():
                    if l.startswith("VIOLATION"):
                        say(l)
            elif unsupported or code not in (0, 1):
                say(f"INCONCLUSIVE property={pid} reason=miri shard {i} could not complete ({(unsupported.group(0) if unsupported else 'exit ' + str(code))[:160]})")
                if worst == 0:
                    worst = 2
            elif ev is None:
                say(f"INCONCLUSIVE property={pid} reason=miri shard {i} wrote no evidence")
                if worst == 0:
                    worst = 2
    write_part(pid, "miri", "miri (cargo +nightly miri run, -Zmiri-disable-isolation)", 0, time.time() - t0, reports,
               {"shards": nshards, "evaluations_under_miri": total_eval, "ub_reports": reports}, sigs)
    say(f"[{pid}-miri] shards={nshards} evaluations_under_miri={total_eval} ub_reports={reports} wall={time.time() - t0:.0f}s")
    return worst


def asan(pid, seed):
    t0 = time.time()
    tdir = os.path.join(HARNESS, "target-asan")
    env = dict(ENV, RUSTFLAGS="-Zsanitizer=address -Cforce-frame-pointers=yes --cfg ivh_no_alloc_monitor", CARGO_TARGET_DIR=tdir)
    b = subprocess.run(["cargo", "+nightly", "build", "--offline", "--target", "x86_64-unknown-linux-gnu", "--profile", "release", "--bin", "vcheck"],
                       cwd=HARNESS, env=env, stdout=subprocess.PIPE, stderr=subprocess.STDOUT, text=True)
    exe = os.path.join(tdir, "x86_64-unknown-linux-gnu", "release", "vcheck")
    if b.returncode != 0 or not os.path.exists(exe):
        say(b.stdout[-3000:])
        say(f"INCONCLUSIVE property={pid} reason=ASan build of the harness failed")
        write_part(pid, "asan", "asan", 0, time.time() - t0, 0, {"build_failed": 1})
        return 2
    log = os.path.join(EVID, "parts", f"{pid}-asan.log")
    renv = dict(ENV, ASAN_OPTIONS=f"halt_on_error=1:abort_on_error=0:detect_leaks=1:log_path={log}:exitcode=66",
                ASAN_SYMBOLIZER_PATH="/usr/bin/llvm-symbolizer-14")
    argv = [exe, pid, "--tier", "thorough", "--seed", str(seed), "--stage", "asan"]
    try:
        r = subprocess.run(argv, cwd=ROOT, env=renv, stdout=subprocess.PIPE, stderr=subprocess.STDOUT, text=True, timeout=SHARD_TIMEOUT)
        code, out = r.returncode, r.stdout
    except subprocess.TimeoutExpired as e:
        code, out = -9, (e.stdout.decode("utf8", "replace") if isinstance(e.stdout, bytes) else (e.stdout or ""))
    sys.stdout.write(out)
    reports = []
    d = os.path.dirname(log)
    for f in os.listdir(d):
        if f.startswith(os.path.basename(log)):
            txt = open(os.path.join(d, f), errors="replace").read()
            reports += re.findall(r"ERROR: (?:AddressSanitizer|LeakSanitizer)[^\n]*", txt)
            out += "\n" + txt
    ev, _ = shard_counts(pid, "asan", 0, 1)
    worst = 0
    sigs = []
    if reports or code == 66:
        sig = f"{pid}/asan/{(reports[0] if reports else 'report')[:80]}"
        sigs.append(sig)
        path = replay_file(pid, "asan", argv, out)
        say(f"  ASan report(s): {len(reports)}: {reports[:3]}")
        say(f"VIOLATION property={pid} replay={path}")
        worst = 1
    elif code == 1:
        worst = 1
    elif code != 0:
        say(f"INCONCLUSIVE property={pid} reason=ASan run exited with status {code}")
        worst = 2
    write_part(pid, "asan-summary", "asan (nightly -Zsanitizer=address, halt_on_error=1, reports counted from the log)", 0, time.time() - t0, len(reports),
               {"evaluations_under_asan": ev or 0, "asan_reports": len(reports)}, sigs)
    say(f"[{pid}-asan] evaluations_under_asan={ev} reports={len(reports)} exit={code} wall={time.time() - t0:.0f}s")
    return worst


if __name__ == "__main__":
    kind, pid, n, seed = sys.argv[1], sys.argv[2], int(sys.argv[3]), sys.argv[4]
    sys.exit(miri(pid, n, seed) if kind == "miri" else asan(pid, seed))
