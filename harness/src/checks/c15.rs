//! C15 — Time and race-length conversions are exact, or refused — never wrong.

use std::time::Duration;

use insim::{insim::*, Packet};
use rayon::prelude::*;
use serde_json::json;

use crate::{
    bind,
    corpus::{self, mode_name, norm_debug, real_decode, real_encode, real_text_enc, Corpus, Dec, Enc},
    ctx::{guarded, hex, Ctx, Part, Tier},
    refspec::{FieldMap, GenOpts, Kind, Layout, SmallArm, TextMode, Val},
    rng::Rng,
};

#[derive(Clone, Debug)]
struct TimeField {
    kind: String,
    /// field name (top level) or SMALL sub-type name
    name: String,
    off: usize,
    bytes: usize,
    unit: u64,
    pinned: bool,
    small_sub: Option<(String, u8)>,
}

fn time_fields(c: &Corpus) -> Vec<TimeField> {
    let mut out = vec![];
    for lay in c.kinds() {
        for f in &lay.fields {
            if let Kind::Dur { bytes, unit, pinned } = &f.kind {
                let unit = if *pinned { *unit } else if lay.name == "RIP" { bind::rip_self_unit() } else { *unit };
                out.push(TimeField { kind: lay.name.clone(), name: f.name.clone(), off: f.off, bytes: *bytes, unit, pinned: *pinned, small_sub: None });
            }
        }
    }
    for (name, num, arm) in &c.spec.small {
        if let SmallArm::Dur { unit, pinned } = arm {
            let unit = if *pinned { *unit } else { bind::small_self_unit(*num) };
            out.push(TimeField { kind: "SMALL".into(), name: name.clone(), off: 4, bytes: 4, unit, pinned: *pinned, small_sub: Some((name.clone(), *num)) });
        }
    }
    out
}

/// Set the typed duration of a time field directly (bypassing the wire-level assignment).
fn set_duration(p: &mut Packet, tf: &TimeField, d: Duration) -> bool {
    match (p, tf.kind.as_str(), tf.name.as_str()) {
        (Packet::Isi(x), _, "Interval") => x.interval = d,
        (Packet::Cpp(x), _, "Time") => x.time = d,
        (Packet::Lap(x), _, "LTime") => x.ltime = d,
        (Packet::Lap(x), _, "ETime") => x.etime = d,
        (Packet::Spx(x), _, "STime") => x.stime = d,
        (Packet::Spx(x), _, "ETime") => x.etime = d,
        (Packet::Psf(x), _, "STime") => x.stime = d,
        (Packet::Fin(x), _, "TTime") => x.ttime = d,
        (Packet::Fin(x), _, "BTime") => x.btime = d,
        (Packet::Res(x), _, "TTime") => x.ttime = d,
        (Packet::Res(x), _, "BTime") => x.btime = d,
        (Packet::Rip(x), _, "CTime") => x.ctime = d,
        (Packet::Rip(x), _, "TTime") => x.ttime = d,
        (Packet::Con(x), _, "Time") => x.time = d,
        (Packet::Obh(x), _, "Time") => x.time = d,
        (Packet::Hlv(x), _, "Time") => x.time = d,
        (Packet::Uco(x), _, "Time") => x.time = d,
        (Packet::Csc(x), _, "Time") => x.time = d,
        (Packet::Small(x), _, "SSP") => x.subt = SmallType::Ssp(d),
        (Packet::Small(x), _, "SSG") => x.subt = SmallType::Ssg(d),
        (Packet::Small(x), _, "STP") => x.subt = SmallType::Stp(d),
        (Packet::Small(x), _, "RTP") => x.subt = SmallType::Rtp(d),
        (Packet::Small(x), _, "NLI") => x.subt = SmallType::Nli(d),
        _ => return false,
    }
    true
}

fn base_assignment(c: &Corpus, lay: &Layout, tf: &TimeField, r: &mut Rng) -> FieldMap {
    let o = GenOpts { text: TextMode::Ascii, max_list: Some(1), boundary: 0, hostile: false };
    let mut fm = c.gen().packet(r, lay, &o);
    if let Some((sub, _)) = &tf.small_sub {
        corpus::set(&mut fm, "SubT", Val::E(sub.clone()));
        corpus::set(&mut fm, "UVal", Val::U(0));
    }
    fm
}

fn wire_at(frame: &[u8], tf: &TimeField) -> u64 {
    let mut v = 0u64;
    for i in 0..tf.bytes {
        v |= (frame[tf.off + i] as u64) << (8 * i);
    }
    v
}

/// decode side: wire value w -> w x unit, and back to w
fn check_wire(c: &Corpus, lay: &Layout, tf: &TimeField, base: &FieldMap, w: u64, p: &mut Part) {
    p.evaluations += 1;
    let mut fm = base.clone();
    corpus::set(&mut fm, if tf.small_sub.is_some() { "UVal" } else { &tf.name }, Val::U(w));
    let img = c.spec.encode(lay, &fm, true, &real_text_enc);
    let sigbase = format!("C15/{}/{}", tf.kind, tf.name);
    let replay = json!({"kind": tf.kind, "field": tf.name, "wire_value": w, "unit_ms": tf.unit, "frame": hex(&img.frame)});
    let expect = match guarded(|| bind::from_fields(&c.spec, lay, &fm)) {
        Ok(Ok(t)) => t,
        _ => return,
    };
    match real_decode(&img.frame, true) {
        Dec::Packet(q, _) => {
            if norm_debug(&q) != norm_debug(&expect) {
                p.violation(
                    format!("{sigbase}/decode-not-w-times-unit"),
                    format!("{}.{}: wire value {w} must decode to {} ms ({} ms units); decoded {}", tf.kind, tf.name, w * tf.unit, tf.unit, clip(&norm_debug(&q))),
                    replay.clone(),
                );
            }
            match real_encode(&q, true) {
                Enc::Ok(f) if f.len() >= tf.off + tf.bytes => {
                    let back = wire_at(&f, tf);
                    if back != w {
                        p.violation(format!("{sigbase}/reencode-differs"), format!("{}.{}: wire value {w} decodes and re-encodes to {back}", tf.kind, tf.name), replay.clone());
                    }
                },
                other => p.violation(format!("{sigbase}/reencode-failed"), format!("{}.{}: wire value {w} decodes but cannot be re-encoded: {:?}", tf.kind, tf.name, other), replay.clone()),
            }
        },
        other => p.violation(format!("{sigbase}/wire-value-rejected"), format!("{}.{}: frame carrying wire value {w} does not decode: {}", tf.kind, tf.name, clip(&format!("{:?}", other))), replay),
    }
}

/// encode side: duration d -> floor(d / unit) if it fits, else an error
fn check_duration(c: &Corpus, lay: &Layout, tf: &TimeField, base: &FieldMap, d: Duration, p: &mut Part) {
    p.evaluations += 1;
    let mut typed = match guarded(|| bind::from_fields(&c.spec, lay, base)) {
        Ok(Ok(t)) => t,
        _ => return,
    };
    if !set_duration(&mut typed, tf, d) {
        p.count("no_setter", 1);
        return;
    }
    let max = if tf.bytes == 2 { 0xffffu128 } else { 0xffff_ffffu128 };
    let quotient = d.as_nanos() / (tf.unit as u128 * 1_000_000);
    let sigbase = format!("C15/{}/{}", tf.kind, tf.name);
    let replay = json!({"kind": tf.kind, "field": tf.name, "duration_ns": d.as_nanos().to_string(), "unit_ms": tf.unit});
    // the configuration entry point for the one duration users set through the builder
    let mut routes = vec![("", typed)];
    if tf.kind == "ISI" {
        if let Ok(isi) = guarded(|| insim::builder::Builder::new().isi_interval(d).isi()) {
            routes.push(("/via-builder", Packet::Isi(isi)));
        } else {
            p.violation(format!("{sigbase}/via-builder/panic"), format!("Builder::isi_interval({:?}).isi() panicked", d), replay.clone());
        }
    }
    for (route, typed) in routes {
        let sigbase = format!("{sigbase}{route}");
        let replay = replay.clone();
        check_encoded_duration(&typed, tf, d, quotient, max, &sigbase, replay, p);
    }
}

#[allow(clippy::too_many_arguments)]
fn check_encoded_duration(typed: &Packet, tf: &TimeField, d: Duration, quotient: u128, max: u128, sigbase: &str, replay: serde_json::Value, p: &mut Part) {
    match real_encode(typed, true) {
        Enc::Ok(f) => {
            let w = wire_at(&f, tf) as u128;
            if quotient > max {
                p.violation(
                    format!("{sigbase}/out-of-range-not-refused"),
                    format!("{}.{}: {:?} is {quotient} units of {} ms, beyond the field's {max}; encoder emitted {w} instead of refusing", tf.kind, tf.name, d, tf.unit),
                    replay,
                );
            } else if w != quotient {
                p.violation(format!("{sigbase}/not-floor"), format!("{}.{}: {:?} must encode as {quotient} ({} ms units, rounded down); encoder emitted {w}", tf.kind, tf.name, d, tf.unit), replay);
            }
        },
        Enc::Err(_) => {
            if quotient <= max {
                p.violation(format!("{sigbase}/in-range-refused"), format!("{}.{}: {:?} = {quotient} units fits the field but is refused", tf.kind, tf.name, d), replay);
            } else {
                p.count("out_of_range_refused", 1);
            }
        },
        Enc::Panic(pn) => p.violation(format!("{sigbase}/encode-panic"), format!("{}.{}: encoding {:?} panicked: {pn}", tf.kind, tf.name, d), replay),
    }
}

fn clip(s: &str) -> String {
    s.chars().take(300).collect()
}

fn expected_racelaps_byte(rl: &RaceLaps) -> Vec<u8> {
    // acceptable wire bytes; Err is always acceptable for unrepresentable values
    match rl {
        RaceLaps::Practice => vec![0],
        RaceLaps::Laps(n) => match *n {
            0 => vec![0],
            1..=99 => vec![*n as u8],
            100..=1000 => vec![((*n - 100) / 10 + 100) as u8],
            _ => vec![0],
        },
        RaceLaps::Hours(h) => match *h {
            1..=48 => vec![(*h + 190) as u8],
            _ => vec![0],
        },
        #[allow(unreachable_patterns)]
        _ => vec![],
    }
}

fn representable(rl: &RaceLaps) -> bool {
    match rl {
        RaceLaps::Practice => true,
        RaceLaps::Laps(n) => (1..=1000).contains(n),
        RaceLaps::Hours(h) => (1..=48).contains(h),
        #[allow(unreachable_patterns)]
        _ => false,
    }
}

fn check_racelaps(c: &Corpus, ctx: &mut Ctx) {
    use insim_core::binrw::{BinRead, BinWrite};
    let mut p = Part::new();
    // decode side, all 256 bytes, directly and through STA / RST
    for b in 0u16..=255 {
        let b = b as u8;
        p.evaluations += 1;
        p.distinct(&("racelaps-byte", b));
        let r = guarded(|| RaceLaps::read_le(&mut std::io::Cursor::new([b])));
        match r {
            Ok(Ok(rl)) => {
                let expect = bind::racelaps_of(b);
                if b <= 238 {
                    if format!("{:?}", rl) != format!("{:?}", expect) {
                        p.violation("C15/RaceLaps/decode", format!("race length byte {b} decodes to {:?}, specification says {:?}", rl, expect), json!({"byte": b}));
                    }
                    let mut cur = std::io::Cursor::new(Vec::new());
                    match guarded(|| rl.write_le(&mut cur)) {
                        Ok(Ok(())) if cur.get_ref() == &[b] => {},
                        other => p.violation("C15/RaceLaps/reencode", format!("race length byte {b} ({:?}) re-encodes to {:?} / {:?}", rl, cur.get_ref(), other), json!({"byte": b})),
                    }
                } else if !matches!(rl, RaceLaps::Practice) {
                    p.violation("C15/RaceLaps/undefined-byte", format!("undefined race length byte {b} decodes to {:?} (must be practice or an error)", rl), json!({"byte": b}));
                }
            },
            Ok(Err(_)) => {
                if b <= 238 {
                    p.violation("C15/RaceLaps/valid-byte-rejected", format!("race length byte {b} is rejected"), json!({"byte": b}));
                }
            },
            Err(pn) => p.violation("C15/RaceLaps/decode-panic", format!("race length byte {b}: {pn}"), json!({"byte": b})),
        }
        // the conversion traits are public entry points of their own
        match guarded(|| RaceLaps::from(b)) {
            Ok(rl) => {
                let expect = bind::racelaps_of(b);
                let want = if b <= 238 { format!("{:?}", expect) } else { format!("{:?}", RaceLaps::Practice) };
                if format!("{:?}", rl) != want {
                    p.violation("C15/RaceLaps/from-u8", format!("RaceLaps::from({b}) = {:?}, specification says {want}", rl), json!({"byte": b}));
                }
                match guarded(|| u8::from(rl)) {
                    Ok(back) if back == if b <= 238 { b } else { 0 } => {},
                    other => p.violation("C15/RaceLaps/into-u8", format!("u8::from(RaceLaps::from({b})) = {:?}", other), json!({"byte": b})),
                }
            },
            Err(pn) => p.violation("C15/RaceLaps/from-u8-panic", format!("RaceLaps::from({b}) panicked: {pn}"), json!({"byte": b})),
        }
        // through the packets that carry it
        for (kind, off) in [("STA", 17usize), ("RST", 4usize)] {
            let lay = c.spec.packet(kind);
            let mut r = Rng::new(b as u64);
            let o = GenOpts { text: TextMode::Ascii, max_list: None, boundary: 0, hostile: false };
            let mut fm = c.gen().packet(&mut r, lay, &o);
            corpus::set(&mut fm, "RaceLaps", Val::U(b as u64));
            let img = c.spec.encode(lay, &fm, true, &real_text_enc);
            p.evaluations += 1;
            match real_decode(&img.frame, true) {
                Dec::Packet(q, _) => {
                    if let Enc::Ok(f) = real_encode(&q, true) {
                        let want = if b <= 238 { b } else { 0 };
                        if f[off] != want {
                            p.violation(format!("C15/{kind}/RaceLaps/reencode"), format!("{kind}: race length byte {b} comes back as {}", f[off]), json!({"byte": b}));
                        }
                    }
                },
                Dec::Err(..) if b > 238 => {},
                other => p.violation(format!("C15/{kind}/RaceLaps/rejected"), format!("{kind} with race length byte {b}: {}", clip(&format!("{:?}", other))), json!({"byte": b})),
            }
        }
    }
    // encode side
    let mut values: Vec<RaceLaps> = vec![RaceLaps::Practice];
    for n in 0..=2000usize {
        values.push(RaceLaps::Laps(n));
    }
    for h in 0..=300usize {
        values.push(RaceLaps::Hours(h));
    }
    for x in [254usize, 255, 256, 257, 65_535, 65_536, 65_537, 65_346, (1 << 32) - 1, 1 << 32, (1 << 32) + 1, usize::MAX - 190, usize::MAX - 1, usize::MAX, usize::MAX - 189, usize::MAX - 191] {
        values.push(RaceLaps::Laps(x));
        values.push(RaceLaps::Hours(x));
        values.push(RaceLaps::Hours(x.wrapping_sub(190)));
    }
    for rl in values {
        p.evaluations += 1;
        p.distinct(&format!("{:?}", rl));
        let acceptable = expected_racelaps_byte(&rl);
        let mut cur = std::io::Cursor::new(Vec::new());
        let r = guarded(|| rl.write_le(&mut cur));
        let what = json!({"value": format!("{:?}", rl)});
        match r {
            Ok(Ok(())) => {
                let out = cur.into_inner();
                if out.len() != 1 || !acceptable.contains(&out[0]) {
                    let sig = if representable(&rl) { "C15/RaceLaps/encode-wrong" } else { "C15/RaceLaps/out-of-range-becomes-valid" };
                    p.violation(sig, format!("{:?} encodes to {:?}; acceptable: {:?} or an error", rl, out, acceptable), what.clone());
                }
            },
            Ok(Err(_)) => {
                if representable(&rl) {
                    p.violation("C15/RaceLaps/representable-refused", format!("{:?} is refused", rl), what.clone());
                }
            },
            Err(pn) => p.violation("C15/RaceLaps/encode-panic", format!("encoding {:?} panicked: {pn}", rl), what.clone()),
        }
        // the infallible conversion has only the documented fallback to offer
        match guarded(|| u8::from(rl)) {
            Ok(b) if acceptable.contains(&b) => {},
            Ok(b) => p.violation(
                if representable(&rl) { "C15/RaceLaps/into-u8-wrong" } else { "C15/RaceLaps/out-of-range-becomes-valid" },
                format!("u8::from({:?}) = {b}; acceptable: {:?}", rl, acceptable),
                what,
            ),
            Err(pn) => p.violation("C15/RaceLaps/into-u8-panic", format!("u8::from({:?}) panicked: {pn}", rl), what),
        }
    }
    p.sample(json!({"racelaps": "Hours(67)", "acceptable": "0 (practice) or an error; 1 (one lap) is a violation"}));
    ctx.merge(p);
}

pub fn run(ctx: &mut Ctx) -> (&'static str, String, bool) {
    let c = match Corpus::load() {
        Ok(c) => c,
        Err(e) => {
            ctx.inconclusive(format!("cannot load the reference specification: {e}"));
            return ("exploration", "spec missing".into(), false);
        },
    };
    let c = &c;
    check_racelaps(c, ctx);
    let fields = time_fields(c);
    ctx.extra(
        "time_fields",
        json!(fields.iter().map(|f| format!("{}.{} {}-bit unit={}ms{}", f.kind, f.name, f.bytes * 8, f.unit, if f.pinned { "" } else { " (unit unpinned: library's own)" })).collect::<Vec<_>>()),
    );
    let thorough = ctx.tier == Tier::Thorough;
    let n32 = ctx.tier.pick(100_000u64, 3_000_000u64);
    let base_rng = ctx.rng.fork(15);
    let parts: Vec<Part> = fields
        .par_iter()
        .enumerate()
        .map(|(fi, tf)| {
            let mut p = Part::new();
            let mut r = base_rng.fork(fi as u64);
            let lay = c.spec.packet(&tf.kind);
            let base = base_assignment(c, lay, tf, &mut r);
            let max: u64 = if tf.bytes == 2 { 0xffff } else { 0xffff_ffff };
            // decode side
            if tf.bytes == 2 {
                for w in 0..=0xffffu64 {
                    check_wire(c, lay, tf, &base, w, &mut p);
                }
                p.distinct_extra += 65536;
            } else {
                let mut ws: Vec<u64> = vec![0, 1, tf.unit - 1, tf.unit, tf.unit + 1, 0xffff, 0x10000, 0x10001, 0x7fff_ffff, 0x8000_0000, 0x8000_0001, max / 10 - 1, max / 10, max / 10 + 1, max - 1, max];
                ws.extend((0..32).map(|b| 1u64 << b));
                // times that mean something to a person or to LFS (placeholders such as "1:00:00.00" for "no lap
                // time" are exactly such values), in this field's unit, with their neighbours
                for ms in [1_000u64, 10_000, 60_000, 100_000, 600_000, 999_990, 1_000_000, 3_599_990, 3_600_000, 6_000_000, 36_000_000, 86_400_000, 100 * 3_600_000, 360_000_000] {
                    let w = ms / tf.unit;
                    ws.extend([w.saturating_sub(1), w, w + 1].into_iter().filter(|x| *x <= max));
                }
                // a dense stretch around one hour
                let hour = 3_600_000 / tf.unit;
                ws.extend((hour.saturating_sub(300)..=(hour + 300).min(max)).step_by(1));
                for _ in 0..n32 {
                    ws.push(if r.chance(1, 4) { max - r.below(100_000) } else { r.next_u32() as u64 });
                }
                for w in ws {
                    p.distinct(&(fi, w));
                    check_wire(c, lay, tf, &base, w, &mut p);
                }
            }
            // the field's corner values again with other values in the packet's remaining fields (flags, sub-types,
            // sibling times): a rule that couples two fields shows only for some of them
            for k in 0..12u64 {
                let mut r2 = r.fork(9000 + k);
                let base2 = base_assignment(c, lay, tf, &mut r2);
                for w in [0u64, 1, 2, max / 2, max - 1, max] {
                    check_wire(c, lay, tf, &base2, w, &mut p);
                }
            }
            // encode side: durations up to and beyond the range, with sub-unit remainders
            let unit_ns = tf.unit as u128 * 1_000_000;
            let range_ns = (max as u128 + 1) * unit_ns;
            let mut ds: Vec<u128> = vec![0, 1, 999_999, 1_000_000, unit_ns - 1, unit_ns, unit_ns + 1, 2 * unit_ns - 1, range_ns - unit_ns, range_ns - 1, range_ns, range_ns + 1, range_ns + unit_ns, range_ns * 2, range_ns * 10 + 7];
            // values where narrowing-before-scaling or wrapping would bite
            for k in [1u128 << 16, 1 << 32, (1 << 32) * 10, 1 << 48, (1u128 << 64) / 1_000_000] {
                for d in [k * 1_000_000 - 1, k * 1_000_000, k * 1_000_000 + unit_ns, k * unit_ns, k * unit_ns + 1] {
                    ds.push(d);
                }
            }
            // millisecond counts that no longer fit 64 (or 96) bits, congruent to small in-range values modulo 2^64 / 2^32:
            // a cast that drops high bits before the range check would send them as those values
            for j in [1u128, 2, 3, 1000, 1 << 8] {
                for w in [0u128, 1, 7, max as u128 / 2, max as u128] {
                    for modulus in [1u128 << 64, 1u128 << 32, (1u128 << 64) * tf.unit as u128] {
                        ds.push((modulus * j + w * tf.unit as u128) * 1_000_000);
                        ds.push((modulus * j + w * tf.unit as u128) * 1_000_000 + 999_999);
                    }
                }
            }
            for sh in [40u32, 52, 53, 60, 61, 62, 63] {
                ds.push((1u128 << sh) * 1_000_000_000);
                ds.push(((1u128 << sh) + 1) * 1_000_000_000 + 384_000_000);
            }
            let n_enc = if tf.bytes == 2 && thorough { 300_000 } else { n32 };
            for _ in 0..n_enc {
                let q = match r.below(4) {
                    0 => r.below(max + 1) as u128,
                    1 => max as u128 - r.below(1000) as u128,
                    2 => max as u128 + 1 + r.below(1_000_000) as u128,
                    _ => r.next_u64() as u128 % (max as u128 * 3),
                };
                ds.push(q * unit_ns + r.below(unit_ns as u64) as u128);
            }
            for d_ns in ds {
                let secs = (d_ns / 1_000_000_000) as u64;
                let nanos = (d_ns % 1_000_000_000) as u32;
                if d_ns / 1_000_000_000 > u64::MAX as u128 {
                    continue;
                }
                p.distinct(&(fi, "d", d_ns));
                check_duration(c, lay, tf, &base, Duration::new(secs, nanos), &mut p);
            }
            // the largest representable Duration
            check_duration(c, lay, tf, &base, Duration::MAX, &mut p);
            p.count(&format!("field_{}.{}", tf.kind, tf.name), p.evaluations);
            if fi == 0 {
                p.sample(json!({"field": format!("{}.{}", tf.kind, tf.name), "wire": 65535, "expected_ms": 65535 * tf.unit}));
            }
            p
        })
        .collect();
    for p in parts {
        ctx.merge(p);
    }
    let _ = mode_name;
    ctx.assume("units per field from ref/insim_v9.spec; for the unpinned fields (SMALL_SSP, SMALL_SSG, RIP.CTime/TTime) the library's own unit is used and only self-consistency is demanded");
    (
        "exploration",
        "all 256 race-length bytes (directly and through STA/RST) and Laps(0..=2000), Hours(0..=300) + width-boundary values; every time field: all 65536 wire values of 16-bit fields, boundary-biased, humanly meaningful (1 s ... 100 h, +-1) and random 32-bit wire values, and durations up to and beyond the range with sub-unit remainders (incl. Duration::MAX); distinct = distinct (field, value)".into(),
        true,
    )
}
