//! Check context: evidence accounting, three-valued verdicts, known findings, panic monitor.

use std::{
    collections::{BTreeMap, HashSet},
    hash::{Hash, Hasher},
    panic::{self, AssertUnwindSafe},
    path::PathBuf,
    sync::{Mutex, Once},
    time::Instant,
};

use serde_json::{json, Map, Value};

use crate::rng::Rng;

#[derive(Clone, Copy, Debug, PartialEq, Eq)]
pub enum Tier {
    Quick,
    Thorough,
}

impl Tier {
    pub fn name(&self) -> &'static str {
        match self {
            Tier::Quick => "quick",
            Tier::Thorough => "thorough",
        }
    }
    pub fn pick<T>(&self, quick: T, thorough: T) -> T {
        match self {
            Tier::Quick => quick,
            Tier::Thorough => thorough,
        }
    }
}

pub fn verif_root() -> PathBuf {
    std::env::var_os("VERIF_ROOT")
        .map(PathBuf::from)
        .unwrap_or_else(|| PathBuf::from("/verif"))
}

pub fn profile_name() -> &'static str {
    if cfg!(debug_assertions) {
        "checked"
    } else {
        "release"
    }
}

#[derive(Clone, Debug)]
pub struct Violation {
    pub signature: String,
    pub what: String,
    pub replay: Value,
}

pub fn hash_of<T: Hash + ?Sized>(t: &T) -> u64 {
    #[allow(deprecated)]
    let mut h = std::hash::SipHasher::new();
    t.hash(&mut h);
    h.finish()
}

/// Thread-safe partial statistics, merged into the Ctx by parallel checks.
#[derive(Default, Debug)]
pub struct Part {
    pub evaluations: u64,
    pub distinct: HashSet<u64>,
    pub distinct_extra: u64,
    pub violations: Vec<Violation>,
    pub counters: BTreeMap<String, u64>,
    pub samples: Vec<Value>,
}

impl Part {
    pub fn new() -> Self {
        Self::default()
    }
    pub fn eval(&mut self) {
        self.evaluations += 1;
    }
    pub fn distinct<T: Hash + ?Sized>(&mut self, t: &T) {
        let _ = self.distinct.insert(hash_of(t));
    }
    pub fn count(&mut self, k: &str, n: u64) {
        *self.counters.entry(k.to_string()).or_insert(0) += n;
    }
    pub fn violation(&mut self, signature: impl Into<String>, what: impl Into<String>, replay: Value) {
        let signature = signature.into();
        if self.violations.len() < 2000 {
            self.violations.push(Violation {
                signature,
                what: what.into(),
                replay,
            });
        } else {
            self.count("violations_dropped_over_cap", 1);
        }
    }
    pub fn sample(&mut self, v: Value) {
        if self.samples.len() < 8 {
            self.samples.push(v);
        }
    }
    pub fn merge(&mut self, o: Part) {
        self.evaluations += o.evaluations;
        self.distinct.extend(o.distinct);
        self.distinct_extra += o.distinct_extra;
        self.violations.extend(o.violations);
        for (k, v) in o.counters {
            *self.counters.entry(k).or_insert(0) += v;
        }
        for s in o.samples {
            self.sample(s);
        }
    }
}

pub struct Ctx {
    pub id: String,
    pub tier: Tier,
    pub seed: u64,
    pub rng: Rng,
    pub part: Part,
    pub extras: Map<String, Value>,
    pub assumptions: Vec<String>,
    pub inconclusive: Vec<String>,
    pub start: Instant,
    pub replay: Option<Value>,
    /// sub-stage selector (e.g. "miri", "asan" shards call the binary with a stage)
    pub stage: Option<String>,
    pub shard: (u64, u64),
}

pub const EXIT_HELD: i32 = 0;
pub const EXIT_VIOLATED: i32 = 1;
pub const EXIT_INCONCLUSIVE: i32 = 2;

impl Ctx {
    pub fn new(id: &str, tier: Tier, seed: u64) -> Self {
        Ctx {
            id: id.to_string(),
            tier,
            seed,
            rng: Rng::new(seed ^ hash_of(id)),
            part: Part::new(),
            extras: Map::new(),
            assumptions: vec![],
            inconclusive: vec![],
            start: Instant::now(),
            replay: None,
            stage: None,
            shard: (0, 1),
        }
    }

    pub fn eval(&mut self) {
        self.part.eval()
    }
    pub fn distinct<T: Hash + ?Sized>(&mut self, t: &T) {
        self.part.distinct(t)
    }
    pub fn count(&mut self, k: &str, n: u64) {
        self.part.count(k, n)
    }
    pub fn sample(&mut self, v: Value) {
        self.part.sample(v)
    }
    pub fn violation(&mut self, signature: impl Into<String>, what: impl Into<String>, replay: Value) {
        self.part.violation(signature, what, replay)
    }
    pub fn extra(&mut self, k: &str, v: Value) {
        let _ = self.extras.insert(k.to_string(), v);
    }
    pub fn assume(&mut self, s: &str) {
        self.assumptions.push(s.to_string());
    }
    pub fn inconclusive(&mut self, why: impl Into<String>) {
        self.inconclusive.push(why.into());
    }
    pub fn merge(&mut self, p: Part) {
        self.part.merge(p)
    }

    /// Finish the run: write evidence, print verdict lines, return the exit code.
    pub fn finish(mut self, level: &str, rule: &str, exhaustive: bool) -> i32 {
        let root = verif_root();
        let known = load_known(&root, &self.id);
        let wall = self.start.elapsed().as_secs_f64();

        // group violations by signature
        let mut by_sig: BTreeMap<String, Vec<Violation>> = BTreeMap::new();
        for v in self.part.violations.drain(..) {
            by_sig.entry(v.signature.clone()).or_default().push(v);
        }
        let mut new_sigs = vec![];
        let mut known_hits = vec![];
        for (sig, vs) in &by_sig {
            if let Some(k) = known.iter().find(|k| &k.0 == sig) {
                known_hits.push((sig.clone(), k.1.clone(), vs.len()));
            } else {
                new_sigs.push(sig.clone());
            }
        }

        let replay_dir = root.join("evidence").join("replay");
        let _ = std::fs::create_dir_all(&replay_dir);
        let suffix = if self.stage.is_some() || self.shard.1 > 1 {
            format!(
                "-{}-{}of{}",
                self.stage.clone().unwrap_or_else(|| "main".into()),
                self.shard.0,
                self.shard.1
            )
        } else {
            String::new()
        };

        let mut out_lines = vec![];
        for (sig, what, n) in &known_hits {
            out_lines.push(format!(
                "KNOWN-FINDING: property={} {} [{}] ({} occurrence(s) this run)",
                self.id, what, sig, n
            ));
        }
        let mut replay_paths = vec![];
        for (i, sig) in new_sigs.iter().enumerate() {
            let vs = &by_sig[sig];
            let path = replay_dir.join(format!("{}{}-{}-{}.json", self.id, suffix, profile_name(), i));
            let doc = json!({
                "property": self.id,
                "signature": sig,
                "what": vs[0].what,
                "occurrences": vs.len(),
                "profile": profile_name(),
                "seed": self.seed,
                "tier": self.tier.name(),
                "case": vs[0].replay,
                "more_cases": vs.iter().skip(1).take(4).map(|v| v.replay.clone()).collect::<Vec<_>>(),
            });
            let _ = std::fs::write(&path, serde_json::to_string_pretty(&doc).unwrap());
            out_lines.push(format!("  violation[{}] {}: {}", i, sig, vs[0].what));
            out_lines.push(format!(
                "VIOLATION property={} replay={}",
                self.id,
                path.display()
            ));
            replay_paths.push(path.display().to_string());
        }

        let distinct = self.part.distinct.len() as u64 + self.part.distinct_extra;
        let mut coverage = Map::new();
        let _ = coverage.insert("evaluations".into(), json!(self.part.evaluations));
        let _ = coverage.insert("distinct_nontrivial".into(), json!(distinct));
        let _ = coverage.insert("rule".into(), json!(rule));
        let _ = coverage.insert("samples".into(), Value::Array(self.part.samples.clone()));
        let _ = coverage.insert("exhaustive".into(), json!(exhaustive));
        let _ = coverage.insert("profile".into(), json!(profile_name()));
        let _ = coverage.insert(
            "counters".into(),
            Value::Object(self.part.counters.iter().map(|(k, v)| (k.clone(), json!(v))).collect()),
        );
        if !known_hits.is_empty() {
            let _ = coverage.insert(
                "known_findings_observed".into(),
                Value::Array(known_hits.iter().map(|(s, w, n)| json!({"signature": s, "what": w, "occurrences": n})).collect()),
            );
        }
        if !new_sigs.is_empty() {
            let _ = coverage.insert("violation_signatures".into(), json!(new_sigs));
            let _ = coverage.insert("replay_files".into(), json!(replay_paths));
        }
        if !self.inconclusive.is_empty() {
            let _ = coverage.insert("inconclusive".into(), json!(self.inconclusive));
        }
        for (k, v) in self.extras.iter() {
            let _ = coverage.insert(k.clone(), v.clone());
        }
        let ev = json!({
            "property_id": self.id,
            "tier": self.tier.name(),
            "seed": self.seed,
            "level": level,
            "coverage": Value::Object(coverage),
            "assumptions": self.assumptions,
            "wall_s": (wall * 1000.0).round() / 1000.0,
            "violations": new_sigs.len(),
        });
        // Stage/shard runs write partial files which the driver merges; the main run writes the evidence file.
        let ev_path = if suffix.is_empty() {
            root.join("evidence").join(format!("{}.json", self.id))
        } else {
            root.join("evidence").join("parts").join(format!("{}{}.json", self.id, suffix))
        };
        if let Some(p) = ev_path.parent() {
            let _ = std::fs::create_dir_all(p);
        }
        let _ = std::fs::write(&ev_path, serde_json::to_string_pretty(&ev).unwrap());

        for l in &out_lines {
            println!("{}", l);
        }
        let verdict;
        let code;
        if !new_sigs.is_empty() {
            verdict = "violated";
            code = EXIT_VIOLATED;
        } else if !self.inconclusive.is_empty() {
            for r in &self.inconclusive {
                println!("INCONCLUSIVE property={} reason={}", self.id, r);
            }
            verdict = "inconclusive";
            code = EXIT_INCONCLUSIVE;
        } else {
            verdict = "held";
            code = EXIT_HELD;
        }
        println!(
            "[{}{}] {} profile={} tier={} seed={} evaluations={} distinct={} new_violations={} known={} wall={:.1}s",
            self.id,
            suffix,
            verdict,
            profile_name(),
            self.tier.name(),
            self.seed,
            self.part.evaluations,
            distinct,
            new_sigs.len(),
            known_hits.len(),
            wall
        );
        code
    }
}

/// (signature, what) of open known findings for a property.
fn load_known(root: &std::path::Path, id: &str) -> Vec<(String, String)> {
    let p = root.join("known_findings.json");
    let Ok(s) = std::fs::read_to_string(&p) else {
        return vec![];
    };
    let Ok(v) = serde_json::from_str::<Value>(&s) else {
        eprintln!("warning: {} is not valid JSON; ignoring", p.display());
        return vec![];
    };
    let mut out = vec![];
    if let Some(a) = v.get("open").and_then(|x| x.as_array()) {
        for e in a {
            if e.get("property").and_then(|x| x.as_str()) == Some(id) {
                if let (Some(sig), Some(what)) = (
                    e.get("signature").and_then(|x| x.as_str()),
                    e.get("what").and_then(|x| x.as_str()),
                ) {
                    out.push((sig.to_string(), what.to_string()));
                }
            }
        }
    }
    out
}

// ---------------------------------------------------------------------------------------------
// Panic monitor

static HOOK: Once = Once::new();
thread_local! {
    static LAST_PANIC: std::cell::RefCell<Option<String>> = const { std::cell::RefCell::new(None) };
    static QUIET: std::cell::Cell<bool> = const { std::cell::Cell::new(false) };
}
static PANIC_LOG: Mutex<Vec<String>> = Mutex::new(Vec::new());

fn install_hook() {
    HOOK.call_once(|| {
        let default = panic::take_hook();
        panic::set_hook(Box::new(move |info| {
            let quiet = QUIET.with(|q| q.get());
            let msg = if let Some(s) = info.payload().downcast_ref::<&str>() {
                s.to_string()
            } else if let Some(s) = info.payload().downcast_ref::<String>() {
                s.clone()
            } else {
                "<non-string panic payload>".to_string()
            };
            let loc = info
                .location()
                .map(|l| format!("{}:{}", l.file(), l.line()))
                .unwrap_or_else(|| "?".into());
            let text = format!("{} @ {}", msg.lines().next().unwrap_or(""), loc);
            if quiet {
                LAST_PANIC.with(|p| *p.borrow_mut() = Some(text));
            } else {
                if let Ok(mut l) = PANIC_LOG.lock() {
                    l.push(text);
                }
                default(info);
            }
        }));
    });
}

/// Run `f`, converting a panic into `Err(message @ file:line)` without printing.
pub fn guarded<T>(f: impl FnOnce() -> T) -> Result<T, String> {
    install_hook();
    let prev = QUIET.with(|q| q.replace(true));
    LAST_PANIC.with(|p| *p.borrow_mut() = None);
    let r = panic::catch_unwind(AssertUnwindSafe(f));
    QUIET.with(|q| q.set(prev));
    match r {
        Ok(v) => Ok(v),
        Err(_) => Err(LAST_PANIC
            .with(|p| p.borrow_mut().take())
            .unwrap_or_else(|| "<panic>".into())),
    }
}

/// Strip the path prefix / line so that a panic site can be part of a signature.
pub fn panic_site(msg: &str) -> String {
    // "text @ /repo/insim/src/x.rs:12" -> "x.rs"
    match msg.rsplit_once(" @ ") {
        Some((_, loc)) => {
            let file = loc.rsplit_once(':').map(|x| x.0).unwrap_or(loc);
            file.rsplit('/').next().unwrap_or(file).to_string()
        },
        None => "?".into(),
    }
}

pub fn hex(b: &[u8]) -> String {
    let mut s = String::with_capacity(b.len() * 2);
    for x in b {
        s.push_str(&format!("{:02x}", x));
    }
    s
}

pub fn unhex(s: &str) -> Vec<u8> {
    (0..s.len() / 2)
        .map(|i| u8::from_str_radix(&s[2 * i..2 * i + 2], 16).unwrap_or(0))
        .collect()
}

/// Condense a (possibly multi-page binrw) error message into one line.
pub fn short_err(e: &str) -> String {
    let strip = |l: &str| -> String {
        let mut out = String::new();
        let mut esc = false;
        for c in l.chars() {
            if esc {
                if c == 'm' {
                    esc = false;
                }
            } else if c == '\u{1b}' {
                esc = true;
            } else {
                out.push(c);
            }
        }
        out.trim().to_string()
    };
    if e.contains("Backtrace") || e.contains("While parsing") {
        let parts: Vec<String> = e
            .lines()
            .map(strip)
            .filter(|l| l.contains("Error:") || l.contains("While parsing field"))
            .map(|l| l.trim_start_matches(|c: char| c.is_ascii_digit() || c == ':' || c == ' ').to_string())
            .collect();
        if !parts.is_empty() {
            let j = parts.join("; ");
            return j.chars().take(400).collect();
        }
    }
    let first = e.lines().map(strip).find(|l| !l.is_empty()).unwrap_or_default();
    first.chars().take(300).collect()
}
