//! C17 — PTH and SMX files round-trip and their parsers withstand any input.

use std::io::Cursor;

use insim_core::{
    binrw::{BinRead, BinWrite},
    point::Point,
};
use insim_pth::{Limit, Node, Pth};
use insim_smx::{Argb, Object, ObjectPoint, Rgb, Smx, Triangle};
use rayon::prelude::*;
use serde_json::json;

use crate::{
    alloc,
    ctx::{guarded, hex, panic_site, Ctx, Part, Tier},
    hang,
    rng::Rng,
};

// ---- independent reference serialisers (from the file format descriptions) -----------------------

fn f32_any(r: &mut Rng) -> f32 {
    match r.below(8) {
        0 => f32::from_bits(0x7fc0_0001), // NaN with payload
        1 => f32::from_bits(0xffc1_2345),
        2 => f32::INFINITY,
        3 => -0.0,
        4 => 0.0,
        _ => f32::from_bits(r.next_u32()),
    }
}

fn gen_pth(r: &mut Rng, max_nodes: usize) -> Pth {
    let n = match r.below(6) {
        0 => 0,
        1 => 1,
        2 => max_nodes,
        _ => r.usize_below(max_nodes + 1),
    };
    let mut p = Pth::default();
    p.version = r.below(256) as u8;
    p.revision = r.below(256) as u8;
    p.finish_line_node = r.next_u32() as i32;
    p.nodes = (0..n)
        .map(|_| Node {
            center: Point { x: r.next_u32() as i32, y: r.next_u32() as i32, z: r.next_u32() as i32 },
            direction: Point { x: f32_any(r), y: f32_any(r), z: f32_any(r) },
            outer_limit: Limit { left: f32_any(r), right: f32_any(r) },
            road_limit: Limit { left: f32_any(r), right: f32_any(r) },
        })
        .collect();
    p
}

fn ref_pth_bytes(p: &Pth) -> Vec<u8> {
    let mut b = b"LFSPTH".to_vec();
    b.push(p.version);
    b.push(p.revision);
    b.extend_from_slice(&(p.nodes.len() as i32).to_le_bytes());
    b.extend_from_slice(&p.finish_line_node.to_le_bytes());
    for n in &p.nodes {
        for v in [n.center.x, n.center.y, n.center.z] {
            b.extend_from_slice(&v.to_le_bytes());
        }
        for v in [n.direction.x, n.direction.y, n.direction.z, n.outer_limit.left, n.outer_limit.right, n.road_limit.left, n.road_limit.right] {
            b.extend_from_slice(&v.to_bits().to_le_bytes());
        }
    }
    b
}

fn gen_smx(r: &mut Rng, max_obj: usize, max_pts: usize, max_tri: usize, max_cp: usize) -> Smx {
    let mut s = Smx::default();
    s.game_version = r.below(256) as u8;
    s.game_revision = r.below(256) as u8;
    s.smx_version = r.below(256) as u8;
    s.dimensions = r.below(256) as u8;
    s.resolution = r.below(256) as u8;
    s.vertex_colours = r.below(256) as u8;
    let tl = if r.chance(1, 3) { 32 } else { r.usize_below(33) };
    if r.chance(1, 2) {
        s.track = (0..tl).map(|_| (b'A' + r.below(26) as u8) as char).collect();
    } else {
        // codepage text with escaped carets and colours, up to the full 32 encoded bytes (no terminator then)
        const PIECES: [&str; 14] = ["A", "z", "7", " ", "_", "^^", "^1", "^8", "é", "ш", "ě", "日", "タ", "^^"];
        let mut t = String::new();
        loop {
            let mut n = t.clone();
            n.push_str(PIECES[r.usize_below(PIECES.len())]);
            if crate::corpus::enc_len(&n) > tl {
                break;
            }
            t = n;
        }
        s.track = t;
    }
    s.ground_colour = Rgb { r: r.below(256) as u8, g: r.below(256) as u8, b: r.below(256) as u8 };
    let no = r.usize_below(max_obj + 1);
    s.objects = (0..no)
        .map(|_| Object {
            center: Point { x: r.next_u32() as i32, y: r.next_u32() as i32, z: r.next_u32() as i32 },
            radius: r.next_u32() as i32,
            points: (0..r.usize_below(max_pts + 1))
                .map(|_| ObjectPoint {
                    xyz: Point { x: r.next_u32() as i32, y: r.next_u32() as i32, z: r.next_u32() as i32 },
                    colour: Argb { a: r.below(256) as u8, rgb: Rgb { r: r.below(256) as u8, g: r.below(256) as u8, b: r.below(256) as u8 } },
                })
                .collect(),
            triangles: (0..r.usize_below(max_tri + 1)).map(|_| Triangle { a: r.below(65536) as u16, b: r.below(65536) as u16, c: r.below(65536) as u16 }).collect(),
        })
        .collect();
    let ncp = if r.chance(1, 3) { max_cp } else { r.usize_below(max_cp + 1) };
    s.checkpoint_object_index = (0..ncp).map(|_| r.next_u32() as i32).collect();
    s
}

fn ref_smx_bytes(s: &Smx) -> Vec<u8> {
    let mut b = b"LFSSMX".to_vec();
    b.extend_from_slice(&[s.game_version, s.game_revision, s.smx_version, s.dimensions, s.resolution, s.vertex_colours, 0, 0, 0, 0]);
    let mut t = crate::corpus::real_text_enc(&s.track, false);
    t.resize(32, 0);
    b.extend_from_slice(&t);
    b.extend_from_slice(&[s.ground_colour.r, s.ground_colour.g, s.ground_colour.b]);
    b.extend_from_slice(&[0u8; 9]);
    b.extend_from_slice(&(s.objects.len() as i32).to_le_bytes());
    for o in &s.objects {
        for v in [o.center.x, o.center.y, o.center.z, o.radius, o.points.len() as i32, o.triangles.len() as i32] {
            b.extend_from_slice(&v.to_le_bytes());
        }
        for p in &o.points {
            for v in [p.xyz.x, p.xyz.y, p.xyz.z] {
                b.extend_from_slice(&v.to_le_bytes());
            }
            b.extend_from_slice(&[p.colour.a, p.colour.rgb.r, p.colour.rgb.g, p.colour.rgb.b]);
        }
        for t in &o.triangles {
            for v in [t.a, t.b, t.c, 0u16] {
                b.extend_from_slice(&v.to_le_bytes());
            }
        }
    }
    b.extend_from_slice(&(s.checkpoint_object_index.len() as i32).to_le_bytes());
    for c in &s.checkpoint_object_index {
        b.extend_from_slice(&c.to_le_bytes());
    }
    b
}

// ---- parsing under the monitors ------------------------------------------------------------------

#[derive(Clone, Copy, PartialEq, Debug)]
pub enum Fmt {
    Pth,
    Smx,
}

enum Parsed {
    Pth(Pth),
    Smx(Smx),
}

impl Parsed {
    fn write(&self) -> Result<Vec<u8>, String> {
        let mut c = Cursor::new(Vec::new());
        match self {
            Parsed::Pth(p) => p.write(&mut c).map_err(|e| e.to_string())?,
            Parsed::Smx(s) => s.write(&mut c).map_err(|e| e.to_string())?,
        }
        Ok(c.into_inner())
    }
}

/// Parse with panic monitor, hang journal and allocation monitor.
fn parse(fmt: Fmt, bytes: &[u8], p: &mut Part, origin: &str) -> Option<Result<Parsed, String>> {
    let mut case = vec![fmt as u8];
    case.extend_from_slice(&bytes[..bytes.len().min(1 << 16)]);
    hang::enter(&case);
    let (r, peak, largest) = alloc::measure(|| {
        guarded(|| match fmt {
            Fmt::Pth => Pth::read(&mut Cursor::new(bytes)).map(Parsed::Pth).map_err(|e| crate::ctx::short_err(&e.to_string())),
            Fmt::Smx => Smx::read(&mut Cursor::new(bytes)).map(Parsed::Smx).map_err(|e| crate::ctx::short_err(&e.to_string())),
        })
    });
    hang::leave();
    p.evaluations += 1;
    let bound = 64 * bytes.len() + 64 * 1024;
    if !cfg!(miri) && peak > bound {
        p.violation(
            format!("C17/{:?}/{origin}/allocation-beyond-input", fmt),
            format!("{:?}: parsing {} bytes grew the heap by {peak} bytes (largest single request {largest}), bound {bound}", fmt, bytes.len()),
            json!({"format": format!("{:?}", fmt), "input": hex(&bytes[..bytes.len().min(256)]), "input_len": bytes.len()}),
        );
    }
    match r {
        Ok(r) => Some(r),
        Err(pn) => {
            p.violation(
                format!("C17/{:?}/{origin}/panic/{}", fmt, panic_site(&pn)),
                format!("{:?}: parsing a {}-byte input panicked: {pn}", fmt, bytes.len()),
                json!({"format": format!("{:?}", fmt), "input": hex(&bytes[..bytes.len().min(512)]), "input_len": bytes.len()}),
            );
            None
        },
    }
}

fn check_valid(fmt: Fmt, canonical: &[u8], written_by_lib: Result<Vec<u8>, String>, p: &mut Part, all_prefixes: bool, r: &mut Rng) {
    let replay = json!({"format": format!("{:?}", fmt), "file": hex(&canonical[..canonical.len().min(512)]), "file_len": canonical.len()});
    p.distinct(canonical);
    // the library writes the generated structure exactly as the format says
    match written_by_lib {
        Ok(w) if w == canonical => {},
        Ok(w) => {
            let at = w.iter().zip(canonical.iter()).position(|(a, b)| a != b).unwrap_or(w.len().min(canonical.len()));
            p.violation(format!("C17/{:?}/write-differs-from-format", fmt), format!("{:?}: writer output differs from the canonical image at offset {at} (len {} vs {})", fmt, w.len(), canonical.len()), replay.clone());
        },
        Err(e) => p.violation(format!("C17/{:?}/write-failed", fmt), format!("{:?}: writing a generated structure failed: {e}", fmt), replay.clone()),
    }
    // canonical bytes -> parse -> write == bytes
    match parse(fmt, canonical, p, "valid") {
        Some(Ok(parsed)) => match guarded(|| parsed.write()) {
            Ok(Ok(w)) if w == canonical => {},
            Ok(Ok(w)) => {
                let at = w.iter().zip(canonical.iter()).position(|(a, b)| a != b).unwrap_or(w.len().min(canonical.len()));
                p.violation(format!("C17/{:?}/roundtrip-differs", fmt), format!("{:?}: canonical file re-written differently at offset {at} (len {} vs {})", fmt, w.len(), canonical.len()), replay.clone());
            },
            other => p.violation(format!("C17/{:?}/rewrite-failed", fmt), format!("{:?}: parsed file cannot be written: {:?}", fmt, other.map(|x| x.map(|_| ()))), replay.clone()),
        },
        Some(Err(e)) => p.violation(format!("C17/{:?}/valid-file-rejected", fmt), format!("{:?}: a canonical file is rejected: {e}", fmt), replay.clone()),
        None => {},
    }
    // the file embedded in a larger stream (an archive member, a file behind a foreign header): read from, and written
    // at, stream offsets that are not multiples of 4 and through stream-like readers / writers
    if canonical.len() <= 4096 && !cfg!(miri) {
        for k in [1usize, 2, 3, 6] {
            let mut buf = vec![0xEEu8; k];
            buf.extend_from_slice(canonical);
            let mut cur = Cursor::new(&buf[..]);
            cur.set_position(k as u64);
            let got = guarded(|| match fmt {
                Fmt::Pth => Pth::read(&mut cur).map(Parsed::Pth).map_err(|e| crate::ctx::short_err(&e.to_string())),
                Fmt::Smx => Smx::read(&mut cur).map(Parsed::Smx).map_err(|e| crate::ctx::short_err(&e.to_string())),
            });
            p.evaluations += 1;
            match got {
                Ok(Ok(parsed)) => {
                    let mut out = Cursor::new(vec![0xEEu8; k]);
                    out.set_position(k as u64);
                    let w = guarded(|| match &parsed {
                        Parsed::Pth(x) => x.write(&mut out).map_err(|e| e.to_string()),
                        Parsed::Smx(x) => x.write(&mut out).map_err(|e| e.to_string()),
                    });
                    let bytes = out.into_inner();
                    if !matches!(w, Ok(Ok(()))) || bytes[k..] != canonical[..] {
                        p.violation(format!("C17/{:?}/roundtrip-differs-at-stream-offset", fmt), format!("{:?}: read at stream offset {k} and written at offset {k}, a canonical file comes back as {} bytes instead of {} ({:?})", fmt, bytes.len() - k, canonical.len(), w.map(|x| x.map(|_| ()))), replay.clone());
                    }
                },
                other => p.violation(format!("C17/{:?}/valid-file-rejected-at-stream-offset", fmt), format!("{:?}: a canonical file read from stream offset {k} is rejected: {:?}", fmt, other.map(|x| x.map(|_| ()))), replay.clone()),
            }
        }
        // written over old content (a reused scratch buffer, a file overwritten in place): every byte of the file is
        // written, none is left to whatever was there before
        if let Some(Ok(parsed)) = parse(fmt, canonical, p, "valid") {
            let mut out = Cursor::new(vec![0xAAu8; canonical.len() + 16]);
            let w = guarded(|| match &parsed {
                Parsed::Pth(x) => x.write(&mut out).map_err(|e| e.to_string()),
                Parsed::Smx(x) => x.write(&mut out).map_err(|e| e.to_string()),
            });
            let end = out.position() as usize;
            let bytes = out.into_inner();
            p.evaluations += 1;
            if !matches!(w, Ok(Ok(()))) || end != canonical.len() || bytes[..end.min(bytes.len())] != canonical[..] {
                let at = bytes.iter().zip(canonical.iter()).position(|(a, b)| a != b).unwrap_or(0);
                p.violation(format!("C17/{:?}/roundtrip-differs-over-old-content", fmt), format!("{:?}: written into a buffer that held other data, a canonical file differs at offset {at} (writer position {end}, file {} bytes)", fmt, canonical.len()), replay.clone());
            }
        }
        let max = 1 + canonical.len() % 7;
        let mut rd = crate::ioadapt::ChunkReader::new(canonical, max);
        let got = guarded(|| match fmt {
            Fmt::Pth => Pth::read(&mut rd).map(Parsed::Pth).map_err(|e| crate::ctx::short_err(&e.to_string())),
            Fmt::Smx => Smx::read(&mut rd).map(Parsed::Smx).map_err(|e| crate::ctx::short_err(&e.to_string())),
        });
        p.evaluations += 1;
        match got {
            Ok(Ok(parsed)) => {
                let mut sink = crate::ioadapt::ShortSink::new(max);
                let w = guarded(|| match &parsed {
                    Parsed::Pth(x) => x.write(&mut sink).map_err(|e| e.to_string()),
                    Parsed::Smx(x) => x.write(&mut sink).map_err(|e| e.to_string()),
                });
                if !matches!(w, Ok(Ok(()))) || sink.inner.get_ref()[..] != canonical[..] {
                    p.violation(format!("C17/{:?}/roundtrip-differs-on-chunked-streams", fmt), format!("{:?}: read {max} byte(s) per call and written {max} byte(s) per call, a canonical file comes back as {} bytes instead of {}", fmt, sink.inner.get_ref().len(), canonical.len()), replay.clone());
                }
            },
            other => p.violation(format!("C17/{:?}/valid-file-rejected-on-chunked-reader", fmt), format!("{:?}: a canonical file read {max} byte(s) per call is rejected: {:?}", fmt, other.map(|x| x.map(|_| ()))), replay.clone()),
        }
    }
    // every strict prefix is rejected
    let cuts: Vec<usize> = if all_prefixes || canonical.len() <= 600 {
        (0..canonical.len()).collect()
    } else {
        let mut v: Vec<usize> = (0..64).chain(canonical.len() - 64..canonical.len()).collect();
        for _ in 0..200 {
            v.push(r.usize_below(canonical.len()));
        }
        v
    };
    for cut in cuts {
        if let Some(Ok(_)) = parse(fmt, &canonical[..cut], p, "truncated") {
            p.violation(
                format!("C17/{:?}/truncated-file-accepted", fmt),
                format!("{:?}: a {}-byte file cut to {cut} bytes is accepted as a shorter file", fmt, canonical.len()),
                json!({"format": format!("{:?}", fmt), "file": hex(&canonical[..canonical.len().min(512)]), "cut": cut}),
            );
            break;
        }
    }
}

fn temp_dir() -> std::path::PathBuf {
    let d = crate::ctx::verif_root().join("harness").join("target").join("c17-tmp");
    let _ = std::fs::create_dir_all(&d);
    d
}

pub fn run(ctx: &mut Ctx) -> (&'static str, String, bool) {
    let miri = ctx.stage.as_deref() == Some("miri");
    let (shard, _nshards) = ctx.shard;
    let thorough = ctx.tier == Tier::Thorough;
    let base_rng = ctx.rng.fork(17);
    let n_files = if miri { 3 } else { ctx.tier.pick(1_500u64, 30_000u64) };

    // ---- generated valid files: round trip, canonical image, truncation at every point ---------------
    let parts: Vec<Part> = (0..n_files)
        .into_par_iter()
        .map(|i| {
            let mut p = Part::new();
            let mut r = base_rng.fork(i + 7001 * shard);
            if i % 2 == 0 {
                let x = gen_pth(&mut r, if miri { 4 } else if i % 100 == 50 { 6000 } else if i % 10 == 0 { 300 } else { 12 });
                let canonical = ref_pth_bytes(&x);
                let w = guarded(|| {
                    let mut c = Cursor::new(Vec::new());
                    x.write(&mut c).map(|_| c.into_inner()).map_err(|e| e.to_string())
                })
                .unwrap_or_else(Err);
                check_valid(Fmt::Pth, &canonical, w, &mut p, canonical.len() <= 8192 && (thorough || i % 8 == 0), &mut r);
                if i == 0 {
                    p.sample(json!({"format": "PTH", "nodes": x.nodes.len(), "file_len": canonical.len(), "head": hex(&canonical[..canonical.len().min(32)])}));
                }
            } else {
                let x = if miri {
                    gen_smx(&mut r, 2, 3, 3, 2)
                } else {
                    match i % 20 {
                        1 => gen_smx(&mut r, 20, 40, 40, 8),
                        3 => gen_smx(&mut r, 2, 3, 3, 400),   // many checkpoints
                        5 => gen_smx(&mut r, 2, 400, 3, 2),   // many points
                        7 => gen_smx(&mut r, 2, 3, 400, 2),   // many triangles
                        9 => gen_smx(&mut r, 150, 2, 2, 2),   // many objects
                        _ => gen_smx(&mut r, 3, 5, 5, 3),
                    }
                };
                let canonical = ref_smx_bytes(&x);
                let w = guarded(|| {
                    let mut c = Cursor::new(Vec::new());
                    x.write(&mut c).map(|_| c.into_inner()).map_err(|e| e.to_string())
                })
                .unwrap_or_else(Err);
                check_valid(Fmt::Smx, &canonical, w, &mut p, canonical.len() <= 8192 && (thorough || i % 8 == 1), &mut r);
                if i == 1 {
                    p.sample(json!({"format": "SMX", "objects": x.objects.len(), "checkpoints": x.checkpoint_object_index.len(), "file_len": canonical.len()}));
                }
            }
            p
        })
        .collect();
    for p in parts {
        ctx.merge(p);
    }

    // ---- element counts whose byte size sits on a power-of-two boundary (a parser that reads in blocks has its edge
    //      cases exactly there): n, n+1 for n*size = 4 KiB ... 128 KiB, for each counted collection -------------------
    if !miri {
        let mut jobs: Vec<(u8, usize)> = vec![];
        for kib in [4usize, 8, 16, 32, 64, 128] {
            let bytes = kib * 1024;
            for (which, size) in [(0u8, 40usize), (1, 16), (2, 8), (3, 4)] {
                let n = bytes / size;
                for m in [n, n + 1, n.saturating_sub(1), 2 * n] {
                    if m * size <= 300 * 1024 {
                        jobs.push((which, m));
                    }
                }
            }
        }
        jobs.sort();
        jobs.dedup();
        let base = base_rng.fork(171717);
        let parts: Vec<Part> = jobs
            .par_iter()
            .enumerate()
            .map(|(ji, (which, n))| {
                let mut p = Part::new();
                let mut r = base.fork(ji as u64);
                let (fmt, canonical, w) = if *which == 0 {
                    let mut x = gen_pth(&mut r, 2);
                    let node = gen_pth(&mut r, 1).nodes.pop().unwrap_or_default();
                    x.nodes = vec![node; *n];
                    let canonical = ref_pth_bytes(&x);
                    let w = guarded(|| {
                        let mut c = Cursor::new(Vec::new());
                        x.write(&mut c).map(|_| c.into_inner()).map_err(|e| e.to_string())
                    })
                    .unwrap_or_else(Err);
                    (Fmt::Pth, canonical, w)
                } else {
                    let mut x = gen_smx(&mut r, 0, 0, 0, 1);
                    let pt = ObjectPoint { xyz: Point { x: 1, y: 2, z: 3 }, colour: Argb { a: 1, rgb: Rgb { r: 2, g: 3, b: 4 } } };
                    let tri = Triangle { a: 0, b: 1, c: 2 };
                    match which {
                        1 => x.objects = vec![Object { center: Point { x: 0, y: 0, z: 0 }, radius: 1, points: vec![pt; *n], triangles: vec![tri] }],
                        2 => x.objects = vec![Object { center: Point { x: 0, y: 0, z: 0 }, radius: 1, points: vec![pt; 3], triangles: vec![tri; *n] }],
                        _ => x.checkpoint_object_index = (0..*n as i32).collect(),
                    }
                    let canonical = ref_smx_bytes(&x);
                    let w = guarded(|| {
                        let mut c = Cursor::new(Vec::new());
                        x.write(&mut c).map(|_| c.into_inner()).map_err(|e| e.to_string())
                    })
                    .unwrap_or_else(Err);
                    (Fmt::Smx, canonical, w)
                };
                p.count("block_boundary_files", 1);
                check_valid(fmt, &canonical, w, &mut p, false, &mut r);
                p
            })
            .collect();
        for p in parts {
            ctx.merge(p);
        }
    }

    // ---- hostile counts ------------------------------------------------------------------------------
    {
        let mut p = Part::new();
        let counts: [i32; 12] = [-1, i32::MIN, i32::MAX, 1_000_000, 0x0100_0000, -2, 65536, 1, 2, 0x7fff_ff00, i32::MIN + 1, 100];
        for cnt in counts {
            // PTH: count with no / too little data
            for tail in [0usize, 39, 40, 41] {
                let mut b = b"LFSPTH".to_vec();
                b.extend_from_slice(&[0, 0]);
                b.extend_from_slice(&cnt.to_le_bytes());
                b.extend_from_slice(&0i32.to_le_bytes());
                b.extend(vec![0x55u8; tail]);
                let declared_fits = cnt >= 0 && (cnt as usize) * 40 <= tail;
                p.distinct(&("pth-count", cnt, tail));
                match parse(Fmt::Pth, &b, &mut p, "hostile-count") {
                    Some(Ok(_)) if !declared_fits => p.violation(
                        "C17/Pth/hostile-count-accepted",
                        format!("PTH declaring {cnt} nodes with {tail} bytes of node data is accepted"),
                        json!({"format": "Pth", "input": hex(&b)}),
                    ),
                    _ => {},
                }
            }
            // SMX: hostile object / point / triangle / checkpoint counts
            for which in 0..4usize {
                let mut s = Smx::default();
                s.track = "X".into();
                if which >= 1 {
                    s.objects.push(Object::default());
                }
                let mut b = ref_smx_bytes(&s);
                let base_len = b.len();
                match which {
                    0 => {
                        let at = 6 + 10 + 32 + 12;
                        b[at..at + 4].copy_from_slice(&cnt.to_le_bytes());
                    },
                    1 => {
                        let at = 6 + 10 + 32 + 12 + 4 + 16;
                        b[at..at + 4].copy_from_slice(&cnt.to_le_bytes());
                    },
                    2 => {
                        let at = 6 + 10 + 32 + 12 + 4 + 20;
                        b[at..at + 4].copy_from_slice(&cnt.to_le_bytes());
                    },
                    _ => {
                        let at = base_len - 4;
                        b[at..at + 4].copy_from_slice(&cnt.to_le_bytes());
                    },
                }
                p.distinct(&("smx-count", cnt, which));
                if let Some(Ok(_)) = parse(Fmt::Smx, &b, &mut p, "hostile-count") {
                    if cnt != 0 {
                        p.violation(
                            "C17/Smx/hostile-count-accepted",
                            format!("SMX with count field #{which} set to {cnt} and no data for it is accepted"),
                            json!({"format": "Smx", "input": hex(&b)}),
                        );
                    }
                }
            }
        }
        ctx.merge(p);
    }

    // ---- mutated and random inputs ---------------------------------------------------------------------
    let n_mut = if miri { 40 } else { ctx.tier.pick(400_000u64, 20_000_000u64) };
    let parts: Vec<Part> = (0u64..16)
        .into_par_iter()
        .map(|t| {
            let mut p = Part::new();
            let mut r = base_rng.fork(9000 + t + 17 * shard);
            let small_pth = ref_pth_bytes(&gen_pth(&mut r, 3));
            let small_smx = ref_smx_bytes(&gen_smx(&mut r, 2, 3, 3, 2));
            // every byte position of small files set to interesting values
            if t < 2 && !miri {
                let (fmt, file) = if t == 0 { (Fmt::Pth, &small_pth) } else { (Fmt::Smx, &small_smx) };
                for pos in 0..file.len() {
                    for v in [0u8, 1, 0x7f, 0x80, 0xff, file[pos] ^ 1] {
                        let mut m = file.clone();
                        m[pos] = v;
                        p.distinct(&(t, pos, v));
                        let _ = parse(fmt, &m, &mut p, "mutated");
                    }
                }
            }
            for i in 0..n_mut / 16 {
                let fmt = if i % 2 == 0 { Fmt::Pth } else { Fmt::Smx };
                let base = if fmt == Fmt::Pth { &small_pth } else { &small_smx };
                let b = match r.below(4) {
                    0 => {
                        let mut m = base.clone();
                        for _ in 0..1 + r.usize_below(4) {
                            let pos = r.usize_below(m.len());
                            m[pos] = r.below(256) as u8;
                        }
                        m
                    },
                    1 => {
                        let mut m = base[..r.usize_below(base.len() + 1)].to_vec();
                        let k = r.usize_below(64);
                        m.extend(r.bytes(k));
                        m
                    },
                    2 => {
                        let mut m = if fmt == Fmt::Pth { b"LFSPTH".to_vec() } else { b"LFSSMX".to_vec() };
                        let k = r.usize_below(400);
                        m.extend(r.bytes(k));
                        m
                    },
                    _ => {
                        let k = r.usize_below(200);
                        r.bytes(k)
                    },
                };
                p.distinct(&b);
                let _ = parse(fmt, &b, &mut p, "random");
            }
            p
        })
        .collect();
    for p in parts {
        ctx.merge(p);
    }

    // ---- the shipped test files, and from_file / from_pathbuf on temporary files -------------------------
    if !miri {
        let mut p = Part::new();
        let mut r = base_rng.fork(424242);
        for (fmt, path) in [(Fmt::Pth, "/repo/insim_pth/tests/AS1.pth"), (Fmt::Smx, "/repo/insim_smx/tests/Autocross_3DH.smx")] {
            if let Ok(bytes) = std::fs::read(path) {
                match parse(fmt, &bytes, &mut p, "shipped") {
                    Some(Ok(parsed)) => match parsed.write() {
                        Ok(w) if w == bytes => {},
                        _ => p.violation(format!("C17/{:?}/shipped-file-roundtrip", fmt), format!("{path} does not re-write identically"), json!({"path": path})),
                    },
                    _ => p.violation(format!("C17/{:?}/shipped-file-rejected", fmt), format!("{path} is rejected"), json!({"path": path})),
                }
                // truncations of the shipped files: all for PTH (11.5 KB) in thorough, sampled otherwise
                let cuts: Vec<usize> = if thorough && bytes.len() < 20_000 { (0..bytes.len()).collect() } else { (0..400).map(|_| r.usize_below(bytes.len())).collect() };
                for cut in cuts {
                    if let Some(Ok(_)) = parse(fmt, &bytes[..cut], &mut p, "truncated") {
                        p.violation(format!("C17/{:?}/truncated-file-accepted", fmt), format!("{path} cut to {cut} bytes is accepted"), json!({"path": path, "cut": cut}));
                        break;
                    }
                }
            } else {
                p.count("shipped_file_missing", 1);
            }
        }
        let dir = temp_dir();
        // every entry point that reads from disk must agree with the in-memory parser: same value, or an error -
        // never a panic, never a value where the parser refuses
        let via_disk = |fmt: Fmt, bytes: &[u8], tag: &str, what: &str, p: &mut Part| {
            let path = dir.join(format!("t{}-{tag}.{}", std::process::id(), if fmt == Fmt::Pth { "pth" } else { "smx" }));
            if std::fs::write(&path, bytes).is_err() {
                p.count("temp_file_not_writable", 1);
                return;
            }
            let mem: Option<Vec<u8>> = match parse(fmt, bytes, p, "disk-reference") {
                Some(Ok(Parsed::Pth(x))) => Some(ref_pth_bytes(&x)),
                Some(Ok(Parsed::Smx(x))) => Some(ref_smx_bytes(&x)),
                _ => None,
            };
            let by_path = guarded(|| match fmt {
                Fmt::Pth => Pth::from_pathbuf(&path).map(|x| ref_pth_bytes(&x)).map_err(|e| e.to_string()),
                Fmt::Smx => Smx::from_pathbuf(&path).map(|x| ref_smx_bytes(&x)).map_err(|e| e.to_string()),
            });
            let by_file = guarded(|| {
                let mut fh = std::fs::File::open(&path).map_err(|e| e.to_string())?;
                match fmt {
                    Fmt::Pth => Pth::from_file(&mut fh).map(|x| ref_pth_bytes(&x)).map_err(|e| e.to_string()),
                    Fmt::Smx => Smx::from_file(&mut fh).map(|x| ref_smx_bytes(&x)).map_err(|e| e.to_string()),
                }
            });
            for (entry, got) in [("from_pathbuf", by_path), ("from_file", by_file)] {
                p.evaluations += 1;
                let replay = json!({"entry": entry, "what": what, "len": bytes.len(), "file": hex(&bytes[..bytes.len().min(256)])});
                match (got, &mem) {
                    (Err(pn), _) => p.violation(format!("C17/{:?}/{entry}-panic/{}", fmt, panic_site(&pn)), format!("{entry} on {what} ({} bytes) panicked: {pn}", bytes.len()), replay),
                    (Ok(Ok(x)), Some(m)) if x == *m => {},
                    (Ok(Ok(_)), Some(_)) => p.violation(format!("C17/{:?}/{entry}-differs", fmt), format!("{entry} on {what} gives a different structure than parsing the same bytes in memory"), replay),
                    (Ok(Ok(_)), None) => p.violation(format!("C17/{:?}/truncated-file-accepted", fmt), format!("{entry} accepts {what} ({} bytes) which the parser refuses", bytes.len()), replay),
                    (Ok(Err(e)), Some(_)) => p.violation(format!("C17/{:?}/{entry}-rejects-valid-file", fmt), format!("{entry} on {what}: {e}"), replay),
                    (Ok(Err(_)), None) => {},
                }
            }
            let _ = std::fs::remove_file(&path);
        };
        for i in 0..ctx.tier.pick(20u64, 200u64) {
            let pth = gen_pth(&mut r, 20);
            let b = ref_pth_bytes(&pth);
            via_disk(Fmt::Pth, &b, &format!("v{i}"), "a valid temporary file", &mut p);
            let cut = r.usize_below(b.len());
            via_disk(Fmt::Pth, &b[..cut], &format!("c{i}"), "a truncated temporary file", &mut p);
            let smx = gen_smx(&mut r, 3, 4, 4, 3);
            let b = ref_smx_bytes(&smx);
            via_disk(Fmt::Smx, &b, &format!("v{i}"), "a valid temporary file", &mut p);
            let cut = r.usize_below(b.len());
            via_disk(Fmt::Smx, &b[..cut], &format!("c{i}"), "a truncated temporary file", &mut p);
            let jl = r.usize_below(80);
            let junk = r.bytes(jl);
            via_disk(if i % 2 == 0 { Fmt::Pth } else { Fmt::Smx }, &junk, &format!("j{i}"), "random bytes", &mut p);
        }
        // every short length (empty file, inside the header, header only, first element) of one valid file per format
        {
            let b = ref_pth_bytes(&gen_pth(&mut r, 3));
            for cut in 0..b.len().min(64) {
                via_disk(Fmt::Pth, &b[..cut], "s", "a file cut inside its first bytes", &mut p);
            }
            let b = ref_smx_bytes(&gen_smx(&mut r, 2, 3, 2, 2));
            for cut in 0..b.len().min(120) {
                via_disk(Fmt::Smx, &b[..cut], "s", "a file cut inside its first bytes", &mut p);
            }
        }
        // files well beyond 1 MiB (real tracks are several MiB): 30 000 PTH nodes; one SMX object with 70 000 points
        {
            let mut big = gen_pth(&mut r, 0);
            big.nodes = (0..30_000).map(|_| gen_pth(&mut r, 1).nodes.pop().unwrap_or_default()).collect();
            let b = ref_pth_bytes(&big);
            via_disk(Fmt::Pth, &b, "big", "a 1.2 MB file", &mut p);
            let mut smx = gen_smx(&mut r, 0, 0, 0, 2);
            smx.objects = vec![Object {
                center: Point { x: 1, y: -2, z: 3 },
                radius: 77,
                points: (0..70_000i32).map(|i| ObjectPoint { xyz: Point { x: i, y: -i, z: i ^ 0x55 }, colour: Argb { a: 255, rgb: Rgb { r: i as u8, g: (i >> 8) as u8, b: 7 } } }).collect(),
                triangles: (0..300u16).map(|i| Triangle { a: i, b: i + 1, c: i + 2 }).collect(),
            }];
            let b = ref_smx_bytes(&smx);
            via_disk(Fmt::Smx, &b, "big", "a 1.1 MB file", &mut p);
        }
        for (fmt, ext) in [(Fmt::Pth, "pth"), (Fmt::Smx, "smx")] {
            let missing = dir.join(format!("does-not-exist.{ext}"));
            let got = guarded(|| match fmt {
                Fmt::Pth => Pth::from_pathbuf(&missing).map(|_| ()).map_err(|e| e.to_string()),
                Fmt::Smx => Smx::from_pathbuf(&missing).map(|_| ()).map_err(|e| e.to_string()),
            });
            p.evaluations += 1;
            if !matches!(got, Ok(Err(_))) {
                p.violation(format!("C17/{:?}/missing-file", fmt), format!("from_pathbuf on a missing file: {:?}", got), json!({}));
            }
        }
        let _ = std::fs::remove_dir(&dir);
        ctx.merge(p);
    }
    ctx.assume("file layouts: PTH = magic, version, revision, i32 count, i32 finish line, 40-byte nodes; SMX = magic, 6 header bytes + 4 spare, 32-byte track, rgb + 9 spare, counted objects (16-byte points, 8-byte triangles), counted i32 checkpoints");
    ctx.assume("allocation bound: peak heap growth of the parsing thread <= 64 x input length + 64 KiB, measured by the counting global allocator (not under Miri)");
    (
        "exploration",
        "generated PTH (0..300 nodes) and SMX (0..20 objects x 0..40 points/triangles, 0..8 checkpoints) with arbitrary payloads incl. NaN patterns: library writer vs independent canonical image, parse/re-write byte equality, every strict prefix rejected; hostile count fields; byte mutations and random inputs under panic, hang and allocation monitors; shipped test files and from_file/from_pathbuf on temporary files; distinct = distinct input byte strings".into(),
        false,
    )
}

pub fn hang_case(bytes: &[u8]) {
    if bytes.is_empty() {
        return;
    }
    let fmt = if bytes[0] == Fmt::Pth as u8 { Fmt::Pth } else { Fmt::Smx };
    let mut p = Part::new();
    let _ = parse(fmt, &bytes[1..], &mut p, "hang-recheck");
}
