//! C12 — Escaping makes arbitrary text wire-safe; colour stripping is exact.

use insim_core::string::{codepages, colours, escaping};
use rayon::prelude::*;
use serde_json::json;

use crate::ctx::{guarded, hex, Ctx, Part};

/// class representatives: caret, digits (0, colour-and-codepage 8, 9), escape letters (v a h),
/// reserved characters (| * # \), codepage letters (L J E), accented/other-codepage/double-byte, plain
// '²' and '１' are numeric characters that are not the ASCII digits of a colour code
pub const ALPHABET: [char; 20] = ['^', '0', '8', '9', 'v', 'a', 'h', '|', '*', '#', '\\', 'L', 'J', 'E', 'é', 'ě', 'あ', 'x', '²', '１'];
const RESERVED: [char; 10] = ['|', '*', ':', '\\', '/', '?', '"', '<', '>', '#'];
const ESCAPE_LETTERS: [char; 10] = ['v', 'a', 'c', 'd', 's', 'q', 't', 'l', 'r', 'h'];

/// 10-line reference for colour stripping.
fn ref_strip(s: &str) -> String {
    let cs: Vec<char> = s.chars().collect();
    let mut out = String::new();
    let mut i = 0;
    while i < cs.len() {
        if cs[i] == '^' && i + 1 < cs.len() && cs[i + 1] == '^' {
            out.push_str("^^");
            i += 2;
        } else if cs[i] == '^' && i + 1 < cs.len() && cs[i + 1].is_ascii_digit() {
            i += 2;
        } else {
            out.push(cs[i]);
            i += 1;
        }
    }
    out
}

/// Left-to-right tokenisation of escaped output: returns a description of the first unsafe token.
fn unsafe_token(escaped: &str) -> Option<String> {
    let cs: Vec<char> = escaped.chars().collect();
    let mut i = 0;
    while i < cs.len() {
        let c = cs[i];
        if c == '^' {
            match cs.get(i + 1) {
                Some(n) if *n == '^' || n.is_ascii_digit() || ESCAPE_LETTERS.contains(n) => i += 2,
                Some(n) => return Some(format!("caret followed by {:?} at char {} is not an escape pair", n, i)),
                None => return Some(format!("dangling caret at char {}", i)),
            }
        } else if RESERVED.contains(&c) {
            return Some(format!("raw reserved character {:?} at char {}", c, i));
        } else {
            i += 1;
        }
    }
    None
}

/// What the encode→decode path may legitimately change is nothing for encodable characters.
fn classify_chain_failure(s: &str) -> String {
    // signature component: which structural feature of the input is involved
    let cs: Vec<char> = s.chars().collect();
    let mut caret_then_cp = false;
    let mut dbcs = false;
    for i in 0..cs.len() {
        if cs[i] == '^' && i + 1 < cs.len() && matches!(cs[i + 1], 'L' | 'G' | 'C' | 'E' | 'T' | 'B' | 'J' | 'H' | 'S' | 'K') {
            caret_then_cp = true;
        }
        if (cs[i] as u32) > 0x2E7F {
            dbcs = true;
        }
    }
    match (caret_then_cp, dbcs) {
        (true, _) => "literal-caret-before-codepage-letter".into(),
        (false, true) => "double-byte-text".into(),
        _ => "other".into(),
    }
}

pub fn check_string(s: &str, p: &mut Part, encodable: bool) {
    p.evaluations += 1;
    p.distinct(s);
    let input = json!({"input": s, "input_hex": hex(s.as_bytes())});
    // 1. unescape(escape(s)) == s
    let esc = match guarded(|| escaping::escape(s).to_string()) {
        Ok(e) => e,
        Err(pn) => {
            p.violation("C12/escape-panic", format!("escape({:?}) panicked: {pn}", s), input);
            return;
        },
    };
    match guarded(|| escaping::unescape(&esc).to_string()) {
        Ok(u) if u == s => {},
        Ok(u) => p.violation("C12/unescape-escape", format!("escape({:?}) = {:?}, unescape gives {:?}", s, esc, u), input.clone()),
        Err(pn) => p.violation("C12/unescape-panic", format!("unescape({:?}) panicked: {pn}", esc), input.clone()),
    }
    // 2. escaped output contains no raw reserved character and no stray caret
    if let Some(why) = unsafe_token(&esc) {
        p.violation("C12/escaped-output-unsafe", format!("escape({:?}) = {:?}: {}", s, esc, why), input.clone());
    }
    // 3. escaped text of encodable characters survives the codepage path
    if encodable {
        let r = guarded(|| {
            let bytes = codepages::to_lossy_bytes(&esc).to_vec();
            let dec = codepages::to_lossy_string(&bytes).to_string();
            (bytes, escaping::unescape(&dec).to_string())
        });
        match r {
            Ok((_, back)) if back == s => {},
            Ok((bytes, back)) => p.violation(
                format!("C12/wire-chain/{}", classify_chain_failure(s)),
                format!("sender writes {:?}; escaped {:?}; wire {}; receiver unescapes to {:?}", s, esc, hex(&bytes), back),
                input.clone(),
            ),
            Err(pn) => p.violation("C12/wire-chain-panic", format!("codepage path of {:?} panicked: {pn}", esc), input.clone()),
        }
    }
    // 4. strip == reference, idempotent
    match guarded(|| colours::strip(s).to_string()) {
        Ok(st) => {
            let r = ref_strip(s);
            if st != r {
                p.violation("C12/strip-differs", format!("strip({:?}) = {:?}, expected {:?}", s, st, r), input.clone());
            }
            match guarded(|| colours::strip(&st).to_string()) {
                Ok(st2) if st2 == st => {},
                other => p.violation("C12/strip-not-idempotent", format!("strip({:?}) = {:?}; stripping again gives {:?}", s, st, other), input.clone()),
            }
        },
        Err(pn) => p.violation("C12/strip-panic", format!("strip({:?}) panicked: {pn}", s), input),
    }
}

fn nth_string(mut idx: u64, len: usize) -> String {
    let mut s = String::with_capacity(len * 3);
    for _ in 0..len {
        s.push(ALPHABET[(idx % ALPHABET.len() as u64) as usize]);
        idx /= ALPHABET.len() as u64;
    }
    s
}

pub fn run(ctx: &mut Ctx) -> (&'static str, String, bool) {
    let maxlen = ctx.tier.pick(4usize, 6usize);
    let mut total = 0u64;
    for len in 0..=maxlen {
        let n = (ALPHABET.len() as u64).pow(len as u32);
        total += n;
        let chunk = 10_000u64;
        let parts: Vec<Part> = (0..n.div_ceil(chunk))
            .into_par_iter()
            .map(|c| {
                let mut p = Part::new();
                for i in c * chunk..((c + 1) * chunk).min(n) {
                    check_string(&nth_string(i, len), &mut p, true);
                }
                p
            })
            .collect();
        for p in parts {
            ctx.merge(p);
        }
    }
    ctx.extra("exhaustive_strings", json!(total));
    ctx.extra("exhaustive_max_len", json!(maxlen));

    // token-level exhaustive: multi-character tokens (colour/codepage-reset ^8, escaped caret, colour, a
    // double-byte character, Latin-1 and other-codepage letters, codepage letters, a reserved character)
    {
        // "ю" "я" are FE FF in CP1251 and "ÿ" "þ" are FF FE in CP1252: byte-order-mark look-alikes at the start of a segment
        // "€" is a single byte (0x80) in GBK, reached after a simplified-only character such as "们"
        const TOKENS: [&str; 18] = ["^8", "^", "^1", "あ", "美", "é", "ě", "ж", "L", "E", "|", "１", "ю", "я", "ÿ", "þ", "€", "们"];
        let maxtok = ctx.tier.pick(5usize, 6usize);
        let mut ntok = 0u64;
        for len in 1..=maxtok {
            let n = (TOKENS.len() as u64).pow(len as u32);
            ntok += n;
            let chunk = 5_000u64;
            let parts: Vec<Part> = (0..n.div_ceil(chunk))
                .into_par_iter()
                .map(|c| {
                    let mut p = Part::new();
                    for i in c * chunk..((c + 1) * chunk).min(n) {
                        let mut idx = i;
                        let mut s = String::new();
                        for _ in 0..len {
                            s.push_str(TOKENS[(idx % TOKENS.len() as u64) as usize]);
                            idx /= TOKENS.len() as u64;
                        }
                        check_string(&s, &mut p, true);
                    }
                    p
                })
                .collect();
            for p in parts {
                ctx.merge(p);
            }
        }
        ctx.extra("token_level_strings", json!(ntok));
    }

    // token-level exhaustive, second family: characters whose second wire byte is 0x5E - a caret to anything that looks at
    // bytes instead of characters ("タ" 83 5E in CP932, "乛" 81 5E in GBK, "乞" A4 5E in CP950) - next to the letters and
    // digits that would form a control code with it, real carets, and characters of the codepages a misread code names
    {
        const TOKENS2: [&str; 16] = ["タ", "乛", "乞", "S", "J", "H", "L", "8", "^", "^8", "^^", "们", "あ", "한", "們", "é"];
        let maxtok = ctx.tier.pick(4usize, 5usize);
        let mut ntok = 0u64;
        for len in 1..=maxtok {
            let n = (TOKENS2.len() as u64).pow(len as u32);
            ntok += n;
            let chunk = 5_000u64;
            let parts: Vec<Part> = (0..n.div_ceil(chunk))
                .into_par_iter()
                .map(|c| {
                    let mut p = Part::new();
                    for i in c * chunk..((c + 1) * chunk).min(n) {
                        let mut idx = i;
                        let mut s = String::new();
                        for _ in 0..len {
                            s.push_str(TOKENS2[(idx % TOKENS2.len() as u64) as usize]);
                            idx /= TOKENS2.len() as u64;
                        }
                        check_string(&s, &mut p, true);
                    }
                    p
                })
                .collect();
            for p in parts {
                ctx.merge(p);
            }
        }
        ctx.extra("token_level_strings_trail_byte_5e", json!(ntok));
    }

    // third family: *every* BMP character whose last wire byte is 0x5E, whatever its lead byte (the hand-picked three above
    // have lead bytes 0x81, 0x83, 0xA4; "鍈" FA 5E in CP932's IBM extension rows has one above 0xEF), followed by each
    // letter / digit that would form a control code with that byte, alone and before a character of another codepage.
    // The library's encoder only selects the characters here; check_string judges them like any other string.
    {
        let cands: Vec<char> = (0x80u32..0x1_0000)
            .into_par_iter()
            .filter_map(char::from_u32)
            .filter(|c| {
                let b = codepages::to_lossy_bytes(&c.to_string()).into_owned();
                b.len() >= 2 && b.last() == Some(&0x5E)
            })
            .collect();
        let leads: std::collections::BTreeSet<u8> =
            cands.iter().map(|c| { let b = codepages::to_lossy_bytes(&c.to_string()).into_owned(); b[b.len() - 2] }).collect();
        const FOLLOW: [&str; 14] = ["L", "G", "C", "E", "T", "B", "J", "H", "S", "K", "8", "^", "0", "h"];
        const TAIL: [&str; 4] = ["", "é", "я", " x"];
        let parts: Vec<Part> = cands
            .par_iter()
            .map(|c| {
                let mut p = Part::new();
                for f in FOLLOW {
                    for t in TAIL {
                        check_string(&format!("{c}{f}{t}"), &mut p, true);
                        check_string(&format!("a{c}{f}{t}"), &mut p, true);
                    }
                }
                p
            })
            .collect();
        for p in parts {
            ctx.merge(p);
        }
        if cands.len() < 100 || leads.iter().all(|l| *l < 0xF0) {
            ctx.inconclusive(format!("only {} characters with a 0x5E trail byte found (lead bytes {:02x?})", cands.len(), leads));
        }
        ctx.extra("trail_byte_5e_characters", json!(cands.len()));
        ctx.extra("trail_byte_5e_distinct_lead_bytes", json!(leads.len()));
    }

    // random longer strings: (a) over an encodable repertoire, (b) arbitrary Unicode (no codepage clause)
    let n = ctx.tier.pick(400_000u64, 20_000_000u64);
    let base = ctx.rng.fork(12);
    let enc_pool: Vec<char> = "^^^^0123456789vacdsqtlrhLGCETBJHSK|*:\\/?\"<>#  abcXYZ_-.éþÿßÀěščřžЖяюΩλώışğūņķあア美日本語한국어中文測試ﾏ".chars().collect();
    let parts: Vec<Part> = (0u64..16)
        .into_par_iter()
        .map(|t| {
            let mut r = base.fork(t);
            let mut p = Part::new();
            for i in 0..n / 16 {
                let maxl = if r.chance(1, 10) { 200 } else { 24 };
                let len = 1 + r.usize_below(maxl);
                let mut s = String::new();
                let encodable = i % 4 != 3;
                for _ in 0..len {
                    if encodable {
                        s.push(*r.pick(&enc_pool));
                    } else if r.chance(1, 3) {
                        s.push(*r.pick(&enc_pool));
                    } else if let Some(c) = char::from_u32(r.below(0x11_0000) as u32) {
                        s.push(c);
                    }
                }
                check_string(&s, &mut p, encodable);
            }
            p
        })
        .collect();
    for p in parts {
        ctx.merge(p);
    }
    for s in ["^|*:\\/?\"<>#123^945", "^L", "^^1", "a^", "^8é^vあ"] {
        if let Ok(v) = guarded(|| {
            let esc = escaping::escape(s).to_string();
            json!({"input": s, "escaped": esc, "stripped": colours::strip(s), "wire_hex": hex(&codepages::to_lossy_bytes(&esc))})
        }) {
            ctx.sample(v);
        }
    }
    ctx.assume("'encodable' repertoire for the wire-chain clause: characters present in at least one of the ten LFS codepages (checked by construction of the pool)");
    (
        "exploration",
        format!("all strings of length <= {maxlen} over the 20-character class alphabet {:?} + random strings up to 200 chars (3/4 over an encodable repertoire with the codepage clause, 1/4 arbitrary Unicode); distinct = distinct input strings", ALPHABET),
        true,
    )
}
