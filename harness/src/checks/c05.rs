//! C05 — Stream reassembly is independent of segmentation and session length.

use rayon::prelude::*;
use serde_json::json;

use crate::{
    corpus::{mode_name, Corpus, MODES},
    ctx::{hex, Ctx, Part, Tier},
    refspec::{limit, GenOpts, TextMode},
    rng::Rng,
    sess::{composition, expected_results, run_read_case, short, ReadCase, ReadOutcome, TRANSIENT},
    transport::{runtime, Impl, RAct},
};

pub const IMPLS: [Impl; 2] = [Impl::Blocking, Impl::Tokio];

/// A stream of `target` bytes (at least) mixing valid frames of all kinds, unknown type numbers and
/// undecodable bodies.
pub fn make_stream(c: &Corpus, r: &mut Rng, compressed: bool, target: usize, small_frames: bool) -> Vec<u8> {
    let mut s = vec![];
    let lim = limit(compressed);
    while s.len() < target {
        match r.below(10) {
            0 => {
                // unknown type number, valid length
                let n = 4 * (1 + r.usize_below(if small_frames { 3 } else { (lim / 4).min(40) }));
                let mut f = r.bytes(n);
                f[0] = if compressed { (n / 4) as u8 } else { n as u8 };
                f[1] = 68 + r.below(180) as u8;
                s.extend(f);
            },
            1 => {
                // known type, random (mostly undecodable or oddly decodable) body
                let n = 4 * (1 + r.usize_below(if small_frames { 3 } else { (lim / 4).min(60) }));
                let mut f = r.bytes(n);
                f[0] = if compressed { (n / 4) as u8 } else { n as u8 };
                f[1] = *r.pick(&[2u8, 5, 11, 17, 21, 37, 38, 53, 54, 64, 253]);
                s.extend(f);
            },
            2 if !small_frames => {
                // frames at and next to the mode's maximum size (1020 / 252 bytes): a full MAL (8 + 4n bytes), a full
                // MCI, or an unknown / undecodable frame announcing the largest legal size
                let maxn = lim / 4 * 4;
                match r.below(4) {
                    0 => {
                        let n = (maxn - 8) / 4 - r.usize_below(3);
                        let mut f = vec![0u8; 8 + 4 * n];
                        f[0] = if compressed { (f.len() / 4) as u8 } else { f.len() as u8 };
                        f[1] = 65; // IS_MAL
                        f[2] = 1 + r.below(255) as u8;
                        f[3] = n as u8;
                        f[4] = r.below(48) as u8;
                        f[5] = r.below(4) as u8;
                        for k in 0..n {
                            f[8 + 4 * k..12 + 4 * k].copy_from_slice(&(0x0100_0000u32 + k as u32 * 7919).to_le_bytes());
                        }
                        s.extend(f);
                    },
                    1 => {
                        let lay = c.spec.packet("MCI");
                        let o = GenOpts { text: TextMode::Ascii, max_list: None, boundary: 4, hostile: false };
                        if let Some((_, f)) = c.ref_frame(r, lay, &o, compressed) {
                            if f.len() <= lim {
                                s.extend(f);
                            }
                        }
                    },
                    _ => {
                        let n = maxn - 4 * r.usize_below(2);
                        let mut f = r.bytes(n);
                        f[0] = if compressed { (n / 4) as u8 } else { n as u8 };
                        f[1] = if r.chance(1, 2) { 68 + r.below(180) as u8 } else { *r.pick(&[2u8, 5, 11, 17, 21, 37, 38, 53, 54, 64, 253]) };
                        s.extend(f);
                    },
                }
            },
            3 => s.extend(if compressed { [1u8, 3, 0, 0] } else { [4u8, 3, 0, 0] }), // keep-alive
            4 if !small_frames && r.chance(1, 12) => {
                // a long run of well-framed packets the library cannot decode (a newer peer): one error each, and the
                // stream goes on - however many there are in a row
                for _ in 0..16 + r.usize_below(30) {
                    let n = 4 * (1 + r.usize_below(3));
                    let mut f = r.bytes(n);
                    f[0] = if compressed { (n / 4) as u8 } else { n as u8 };
                    f[1] = 70 + r.below(150) as u8;
                    s.extend(f);
                }
            },
            _ => {
                let lay = r.pick(c.kinds());
                let o = GenOpts { text: if r.chance(1, 3) { TextMode::Mixed } else { TextMode::Ascii }, max_list: Some(if small_frames { 1 } else { 12 }), boundary: 4, hostile: false };
                let f = if r.chance(1, 2) { c.frame(r, lay, &o, compressed).map(|x| x.1) } else { c.ref_frame(r, lay, &o, compressed).map(|x| x.1) };
                if let Some(f) = f {
                    if f.len() <= lim && (!small_frames || f.len() <= 12) {
                        s.extend(f);
                    }
                }
            },
        }
    }
    s
}

/// Random partition drawn from a hostile mixture.
pub fn random_plan(r: &mut Rng, stream: &[u8], compressed: bool) -> (Vec<RAct>, usize) {
    let style = r.below(7);
    let mut plan = vec![];
    let mut pos = 0usize;
    // frame boundaries, for boundary-relative cuts
    let (frames, _) = crate::transport::ref_frames(stream, compressed);
    let mut bounds = vec![];
    let mut acc = 0;
    for f in &frames {
        acc += f.len();
        bounds.push(acc);
    }
    let mut bi = 0;
    while pos < stream.len() && plan.len() < 200_000 {
        while bi < bounds.len() && bounds[bi] <= pos {
            bi += 1;
        }
        let to_boundary = bounds.get(bi).map(|b| b - pos).unwrap_or(stream.len() - pos);
        let k = match style {
            0 => 1,
            1 => to_boundary,                                     // exactly one frame per read
            2 => (to_boundary + 1).saturating_sub(2 * (r.below(2) as usize)).max(1), // boundary +-1
            3 => usize::MAX,                                      // everything offered
            4 => 1 + (r.below(64) as usize).min(r.below(2048) as usize), // geometric-ish small
            5 => {
                // cut inside the size byte / before the last byte of the frame
                if r.chance(1, 2) {
                    to_boundary.saturating_sub(1).max(1)
                } else {
                    to_boundary + 1
                }
            },
            _ => 1 + r.usize_below(1500),
        };
        plan.push(RAct::Bytes(k));
        pos = pos.saturating_add(k.min(stream.len() - pos).max(1));
    }
    (plan, if style == 3 { 0 } else { 1 + r.usize_below(700) })
}

pub fn judge(case: &ReadCase, which: Impl, o: &ReadOutcome, p: &mut Part) -> bool {
    let (expected, _) = expected_results(&case.stream, case.compressed);
    let sig = |what: &str| format!("C05/{}/{what}", which.name());
    let replay = || {
        json!({"impl": which.name(), "mode": mode_name(case.compressed), "label": case.label, "stream": hex(&case.stream[..case.stream.len().min(4096)]), "stream_len": case.stream.len(),
               "read_plan": format!("{:?}", &case.read_plan[..case.read_plan.len().min(64)]), "default_read": case.default_read})
    };
    let mut ok = true;
    if o.runaway {
        p.violation(sig("runaway"), format!("{} reads did not reach a stable Disconnected (results so far {})", o.calls, o.results.len()), replay());
        return false;
    }
    if o.results != expected {
        ok = false;
        let at = o.results.iter().zip(expected.iter()).position(|(a, b)| a != b).unwrap_or(o.results.len().min(expected.len()));
        let kind = if o.results.len() < expected.len() && at == o.results.len() {
            "results-missing"
        } else if o.results.len() > expected.len() && at == expected.len() {
            "extra-results"
        } else {
            "result-differs"
        };
        p.violation(
            sig(kind),
            format!(
                "{} {} [{}]: {} frames expected, {} results; first difference at #{at}: got {} expected {}",
                which.name(),
                mode_name(case.compressed),
                case.label,
                expected.len(),
                o.results.len(),
                o.results.get(at).map(short).unwrap_or_else(|| "<none>".into()),
                expected.get(at).map(short).unwrap_or_else(|| "<none>".into())
            ),
            replay(),
        );
    }
    if o.disconnects < 3 {
        ok = false;
        p.violation(sig("disconnect-not-sticky"), format!("{} [{}]: Disconnected was not returned on every read after the end of the stream", which.name(), case.label), replay());
    }
    if o.transient_seen != o.transient_injected {
        ok = false;
        p.violation(
            sig("transient-error-not-surfaced"),
            format!("{} [{}]: {} transient transport errors injected, {} surfaced as IO errors", which.name(), case.label, o.transient_injected, o.transient_seen),
            replay(),
        );
    }
    if let Some(b) = o.conservation_breaks.first() {
        ok = false;
        p.violation(sig("byte-conservation"), format!("{} [{}]: {b}", which.name(), case.label), replay());
    }
    ok
}

fn run_both(case: &ReadCase, p: &mut Part) -> (ReadOutcome, ReadOutcome) {
    let a = run_read_case(Impl::Blocking, case);
    let b = run_read_case(Impl::Tokio, case);
    p.evaluations += 2;
    let oka = judge(case, Impl::Blocking, &a, p);
    let okb = judge(case, Impl::Tokio, &b, p);
    if oka && okb && a.results != b.results {
        p.violation("C05/blocking-tokio-differ", format!("[{}] blocking and tokio return different sequences", case.label), json!({"stream": hex(&case.stream)}));
    }
    (a, b)
}

pub fn run(ctx: &mut Ctx) -> (&'static str, String, bool) {
    let c = match Corpus::load() {
        Ok(c) => c,
        Err(e) => {
            ctx.inconclusive(format!("cannot load the reference specification: {e}"));
            return ("fault_enumeration", "spec missing".into(), false);
        },
    };
    let c = &c;
    let base_rng = ctx.rng.fork(5);
    let thorough = ctx.tier == Tier::Thorough;
    let miri = ctx.stage.as_deref() == Some("miri");
    let (shard, nshards) = ctx.shard;

    // ---- exhaustive partitions of short streams -----------------------------------------------
    let short_streams: Vec<(bool, Vec<u8>, &str)> = {
        let mut v = vec![];
        for compressed in MODES {
            let s = |n: usize| if compressed { (n / 4) as u8 } else { n as u8 };
            // four 4-byte frames: ping, keep-alive, unknown sub-type (decode error), close
            v.push((compressed, [[s(4), 3, 7, 3], [s(4), 3, 0, 0], [s(4), 3, 1, 200], [s(4), 3, 0, 2]].concat(), "4x4"));
            // TINY, SMALL, TINY
            v.push((compressed, [&[s(4), 3, 9, 1][..], &[s(8), 4, 1, 4, 1, 0, 0, 0][..], &[s(4), 41, 5, 6][..]].concat(), "4+8+4"));
            // unknown type number in the middle
            v.push((compressed, [&[s(4), 3, 9, 1][..], &[s(8), 200, 1, 4, 1, 0, 0, 0][..], &[s(4), 22, 5, 6][..]].concat(), "4+unknown8+4"));
        }
        v
    };
    let bits = if miri { 7 } else { 15 };
    let _g_rt = runtime();
    let parts: Vec<Part> = short_streams
        .par_iter()
        .map(|(compressed, stream, label)| {
            let rt = runtime();
            let _g = rt.enter();
            let mut p = Part::new();
            let total = stream.len();
            let nmask = 1u64 << (total - 1).min(bits);
            for mask in 0..nmask {
                if miri && mask % nshards != shard {
                    continue;
                }
                let plan: Vec<RAct> = composition(total, mask).into_iter().map(RAct::Bytes).collect();
                let case = ReadCase { compressed: *compressed, stream: stream.clone(), read_plan: plan, default_read: 0, write_plan: vec![], verify_version: false, flush: 0, label: format!("exhaustive-{label}-mask{mask}") };
                let _ = run_both(&case, &mut p);
                p.distinct_extra += 2;
            }
            if mask_sample(&mut p) {
                p.sample(json!({"stream": hex(stream), "mode": mode_name(*compressed), "partitions": nmask, "label": label}));
            }
            p.count("exhaustive_partition_sessions", 2 * nmask);
            p
        })
        .collect();
    for p in parts {
        ctx.merge(p);
    }

    // ---- faults at every read index of short streams; end of stream at every offset ---------------
    {
        let rt = runtime();
        let _g = rt.enter();
        let mut p = Part::new();
        for (compressed, stream, label) in &short_streams {
            let total = stream.len();
            for seg in [1usize, 3, 4, 5] {
                let nreads = total.div_ceil(seg);
                for at in 0..=nreads {
                    if miri && (seg != 3 || (at as u64) % nshards != shard || *label != "4+8+4") {
                        continue;
                    }
                    for kind in TRANSIENT {
                        for pend in [false, true] {
                            let mut plan = vec![];
                            for i in 0..nreads {
                                if i == at {
                                    plan.push(RAct::Error(kind));
                                    if pend {
                                        plan.push(RAct::Pending);
                                        plan.push(RAct::Error(kind));
                                    }
                                }
                                if pend {
                                    plan.push(RAct::Pending);
                                }
                                plan.push(RAct::Bytes(seg));
                            }
                            if at == nreads {
                                plan.push(RAct::Error(kind));
                            }
                            let case = ReadCase { compressed: *compressed, stream: stream.clone(), read_plan: plan, default_read: 0, write_plan: vec![], verify_version: false, flush: 0, label: format!("fault-{label}-seg{seg}-at{at}-{:?}-pend{pend}", kind) };
                            let _ = run_both(&case, &mut p);
                            p.distinct(&case.label);
                        }
                    }
                }
            }
            // stream cut at every byte offset: never a fabricated packet
            for cut in 0..total {
                if miri && ((cut as u64) % nshards != shard || *label != "4+8+4") {
                    continue;
                }
                for seg in [1usize, 4, 64] {
                    let case = ReadCase { compressed: *compressed, stream: stream[..cut].to_vec(), read_plan: vec![], default_read: seg, write_plan: vec![], verify_version: false, flush: 0, label: format!("eof-{label}-cut{cut}-seg{seg}") };
                    let _ = run_both(&case, &mut p);
                    p.distinct(&case.label);
                }
            }
        }
        p.count("fault_and_eof_sessions", p.evaluations);
        ctx.merge(p);
    }

    // ---- long sessions: several times the 6120-byte buffer, hostile random partitions -----------
    let n_long = if miri { if shard < 4 { 1 } else { 0 } } else { ctx.tier.pick(160u64, 6000u64) };
    let results: Vec<(Part, usize, usize, usize)> = (0..n_long)
        .into_par_iter()
        .map(|i| {
            let rt = runtime();
            let _g = rt.enter();
            let mut p = Part::new();
            let mut r = base_rng.fork(100 + i + 7919 * shard);
            let compressed = i % 2 == 0;
            let target = if miri { 6120 + 1200 } else { 6120 * (3 + r.usize_below(if thorough { 8 } else { 3 })) };
            let stream = if miri {
                // hand-built frames: cheap to produce and to decode under the interpreter, still > 6120 bytes
                let mut s = vec![];
                let mut k = 0u32;
                while s.len() < target {
                    k += 1;
                    let n = 8 + 4 * (10 + (k as usize * 7) % 40); // MAL with 10..49 mods
                    let mut f = vec![if compressed { (n / 4) as u8 } else { n as u8 }, 65, k as u8, ((n - 8) / 4) as u8, 0, 0, 0, 0];
                    for i in 0..(n - 8) / 4 {
                        f.extend_from_slice(&(0x0100_0000u32 + k * 256 + i as u32).to_le_bytes());
                    }
                    s.extend(f);
                    s.extend_from_slice(&[if compressed { 1 } else { 4 }, 3, (k % 200) as u8, if k % 9 == 0 { 0 } else { 3 }]);
                }
                s
            } else {
                make_stream(c, &mut r, compressed, target, false)
            };
            let (mut plan, default_read) = random_plan(&mut r, &stream, compressed);
            // random transient faults
            if i % 3 == 0 && !plan.is_empty() {
                for _ in 0..1 + r.usize_below(6) {
                    let at = r.usize_below(plan.len());
                    plan.insert(at, RAct::Error(*r.pick(&TRANSIENT)));
                }
            }
            if i % 4 == 1 && !plan.is_empty() {
                for _ in 0..1 + r.usize_below(20) {
                    let at = r.usize_below(plan.len());
                    plan.insert(at, RAct::Pending);
                }
            }
            let case = ReadCase { compressed, stream, read_plan: plan, default_read, write_plan: vec![], verify_version: false, flush: 0, label: format!("long-{i}") };
            p.distinct(&case.stream);
            let (a, b) = run_both(&case, &mut p);
            if i == 0 {
                p.sample(json!({"label": "long-0", "stream_len": case.stream.len(), "frames": a.results.len(), "transport_reads": case.read_plan.len(), "min_spare_capacity_offered": a.min_offered, "capacity_growths": a.capacity_growths}));
            }
            (p, a.min_offered.min(b.min_offered), a.capacity_growths + b.capacity_growths, a.max_buffered.max(b.max_buffered))
        })
        .collect();
    let mut min_off = usize::MAX;
    let mut growths = 0;
    let mut max_buf = 0;
    for (p, m, g, b) in results {
        ctx.merge(p);
        min_off = min_off.min(m);
        growths += g;
        max_buf = max_buf.max(b);
    }
    ctx.extra("long_sessions", json!(n_long * 2));
    ctx.extra("min_spare_capacity_offered_to_transport", json!(min_off));
    ctx.extra("buffer_capacity_growth_events", json!(growths));
    ctx.extra("max_buffered_bytes", json!(max_buf));
    if !miri && (min_off >= 1020 || growths == 0) {
        ctx.inconclusive(format!("long sessions never drove the receive buffer's spare capacity below one maximum frame (min {min_off}, growth events {growths}): the session-length half was not exercised"));
    }
    // ---- other calls on the same connection between reads (handshake, write) must not disturb what is buffered -----
    if !miri {
        use crate::transport::{poll_to_end, Conn, Handle, ReadResult};
        let n = ctx.tier.pick(400u64, 8_000u64);
        let base = ctx.rng.fork(5151);
        let parts: Vec<Part> = (0..n)
            .into_par_iter()
            .map(|i| {
                let rt = runtime();
                let _g = rt.enter();
                let mut p = Part::new();
                let mut r = base.fork(i);
                let compressed = i % 2 == 0;
                let target = 60 + r.usize_below(600);
                let stream = make_stream(c, &mut r, compressed, target, i % 3 == 0);
                let (expected, _) = expected_results(&stream, compressed);
                let seg = [0usize, 7, 13, 64, 1][r.usize_below(5)];
                let at = r.usize_below(expected.len().max(1));
                let use_write = r.chance(1, 3);
                for which in IMPLS {
                    p.evaluations += 1;
                    p.distinct(&(which.name(), compressed, &stream, seg, at, use_write));
                    let h = Handle::new(stream.clone(), vec![], vec![]);
                    h.with(|x| x.default_read = seg);
                    let mut conn = Conn::new(which, &h, compressed, false);
                    let mut results = vec![];
                    let mut called = false;
                    for _ in 0..expected.len() + 4 {
                        if results.len() == at && !called {
                            called = true;
                            let isi = insim::insim::Isi { iname: "again".into(), ..Default::default() };
                            let ok = if use_write {
                                conn.write(&h, insim::Packet::Isi(isi)).is_ok()
                            } else {
                                match &mut conn {
                                    Conn::Blocking(f) => f.handshake(isi).is_ok(),
                                    Conn::Tokio(f) => {
                                        let mut fut = Box::pin(f.handshake(isi, std::time::Duration::from_secs(30)));
                                        matches!(poll_to_end(fut.as_mut(), 100_000), Some(Ok(())))
                                    },
                                }
                            };
                            if !ok {
                                p.count("midway_call_failed", 1);
                            }
                        }
                        let x = conn.read(&h);
                        let end = matches!(x, ReadResult::Disconnected);
                        if !end {
                            results.push(x);
                        } else {
                            break;
                        }
                    }
                    if results != expected {
                        let k = results.iter().zip(expected.iter()).position(|(a, b)| a != b).unwrap_or(results.len().min(expected.len()));
                        p.violation(
                            format!("C05/{}/disturbed-by-{}", which.name(), if use_write { "write" } else { "handshake" }),
                            format!(
                                "{} {}: a {} issued after {at} results ({}-byte reads) changes what the following reads return: {} results instead of {}, first difference at #{k}: {} vs {}",
                                which.name(),
                                mode_name(compressed),
                                if use_write { "write" } else { "handshake" },
                                if seg == 0 { "whole-stream".to_string() } else { seg.to_string() },
                                results.len(),
                                expected.len(),
                                results.get(k).map(crate::sess::short).unwrap_or_else(|| "<none>".into()),
                                expected.get(k).map(crate::sess::short).unwrap_or_else(|| "<none>".into())
                            ),
                            json!({"impl": which.name(), "mode": mode_name(compressed), "stream": hex(&stream[..stream.len().min(512)]), "segment": seg, "call_after_results": at}),
                        );
                    }
                }
                p
            })
            .collect();
        for p in parts {
            ctx.merge(p);
        }
    }
    // ---- connections made by Builder::tcp over loopback: the peer's segmentation is the kernel's ---------------
    if !miri {
        use crate::realconn::builder_tcp_session;
        let n = ctx.tier.pick(8u64, 120u64);
        let base = ctx.rng.fork(5005);
        let parts: Vec<(Part, Option<String>)> = (0..n)
            .into_par_iter()
            .map(|i| {
                let mut p = Part::new();
                let mut r = base.fork(i);
                let which = if i % 2 == 0 { Impl::Blocking } else { Impl::Tokio };
                let compressed = (i / 2) % 2 == 0;
                let target = if i % 3 == 0 { 6120 * 2 + r.usize_below(6120) } else { 100 + r.usize_below(4000) };
                let stream = make_stream(c, &mut r, compressed, target, false);
                match builder_tcp_session(c, &mut r, which, compressed, stream, 0) {
                    Ok(o) => {
                        p.evaluations += 1;
                        p.distinct(&(which.name(), &o.stream));
                        p.count("builder_tcp_sessions", 1);
                        p.count("builder_tcp_segments_sent", o.segments as u64);
                        let mut want = o.expected.clone();
                        want.push(crate::transport::ReadResult::Disconnected);
                        if o.results != want {
                            let at = o.results.iter().zip(want.iter()).position(|(a, b)| a != b).unwrap_or(o.results.len().min(want.len()));
                            p.violation(
                                format!("C05/{}/builder-tcp/result-differs", which.name()),
                                format!(
                                    "{}: {} frames sent in {} TCP segments, {} results; first difference at #{at}: {} vs {}",
                                    o.label,
                                    o.expected.len(),
                                    o.segments,
                                    o.results.len(),
                                    o.results.get(at).map(crate::sess::short).unwrap_or_else(|| "<none>".into()),
                                    want.get(at).map(crate::sess::short).unwrap_or_else(|| "<none>".into())
                                ),
                                json!({"label": o.label, "stream_len": o.stream.len(), "segments": o.segments, "stream_head": hex(&o.stream[..o.stream.len().min(256)])}),
                            );
                        }
                        (p, None)
                    },
                    Err(e) => (p, Some(e)),
                }
            })
            .collect();
        for (p, e) in parts {
            ctx.merge(p);
            if let Some(e) = e {
                ctx.inconclusive(format!("builder TCP session could not be judged: {e}"));
            }
        }
    }
    ctx.assume("the scripted transport models a TCP-like byte stream: each read returns 1..=offered of the remaining bytes, a transient error, Pending (async), or EOF");
    (
        "fault_enumeration",
        "all 2^(B-1) partitions of three short streams (B<=16) x {blocking,tokio} x both modes; a transient error (3 kinds, with/without Pending) injected at every read index of four segmentations; end of stream at every byte offset; long sessions of 3-10x the 6120-byte buffer mixing every kind, unknown types and undecodable bodies under seven hostile partition styles with random faults; judged by reference framing, byte conservation (hook) and blocking==tokio; connections made by Builder::tcp over loopback whose peer sends the stream in 4 TCP segmentation styles; distinct = distinct (stream, plan)".into(),
        true,
    )
}

fn mask_sample(p: &mut Part) -> bool {
    p.samples.is_empty()
}
