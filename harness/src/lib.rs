//! ivh — verification harness for theangryangel/insim.rs (runtime monitoring family).
#![allow(clippy::type_complexity)]

pub mod alloc;
pub mod bind;
pub mod checks;
pub mod corpus;
pub mod refspec;
pub mod ctx;
pub mod hang;
pub mod ioadapt;
pub mod rng;
pub mod realconn;
pub mod sess;
pub mod trace;
pub mod transport;

#[cfg(not(any(miri, ivh_no_alloc_monitor)))]
#[global_allocator]
static GLOBAL: alloc::Counting = alloc::Counting;
