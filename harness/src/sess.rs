//! Session runners and offline checkers over the recorded event log (C05, C06, C07, C09, C19).

use std::io::ErrorKind;

use crate::{
    corpus::{real_decode, Dec},
    transport::{ref_frames, Conn, Ev, Handle, Impl, RAct, ReadResult, WAct},
};

pub const TRANSIENT: [ErrorKind; 3] = [ErrorKind::Interrupted, ErrorKind::WouldBlock, ErrorKind::TimedOut];

#[derive(Clone, Debug)]
pub struct ReadCase {
    pub compressed: bool,
    pub stream: Vec<u8>,
    pub read_plan: Vec<RAct>,
    pub default_read: usize,
    pub write_plan: Vec<WAct>,
    pub verify_version: bool,
    /// tokio only: 0 = plain transport; k >= 1 = buffering transport (bytes reach the wire on flush) whose flush is
    /// Pending k-1 times before it completes
    pub flush: usize,
    pub label: String,
}

#[derive(Debug)]
pub struct ReadOutcome {
    /// results of read calls in order, transient injected errors removed
    pub results: Vec<ReadResult>,
    pub transient_seen: usize,
    pub transient_injected: usize,
    pub disconnects: usize,
    pub conservation_breaks: Vec<String>,
    pub written: Vec<u8>,
    pub events: Vec<Ev>,
    pub min_offered: usize,
    pub max_buffered: usize,
    pub capacity_growths: usize,
    pub calls: usize,
    pub runaway: bool,
}

/// Expected result sequence of a stream: one per announced frame (decoded in isolation by the real
/// codec), then Disconnected.
pub fn expected_results(stream: &[u8], compressed: bool) -> (Vec<ReadResult>, Vec<usize>) {
    let (frames, _rest) = ref_frames(stream, compressed);
    let mut out = vec![];
    let mut sizes = vec![];
    for f in frames {
        sizes.push(f.len());
        out.push(match real_decode(f, compressed) {
            Dec::Packet(p, _) => ReadResult::Packet(format!("{:?}", p)),
            Dec::Err(..) => ReadResult::DecodeErr,
            Dec::NeedMore => ReadResult::Other("reference frame incomplete?".into()),
            Dec::Panic(pn) => ReadResult::Other(format!("panic: {pn}")),
        });
    }
    (out, sizes)
}

/// Run a read-only session to the end of the stream and beyond (two extra reads after Disconnected).
pub fn run_read_case(which: Impl, case: &ReadCase) -> ReadOutcome {
    run_read_case_pre(which, case, 0)
}

/// As `run_read_case`, after `refused_first` writes of packets that cannot be encoded (each must fail and leave nothing
/// behind on the connection).
pub fn run_read_case_pre(which: Impl, case: &ReadCase, refused_first: usize) -> ReadOutcome {
    let h = Handle::new(case.stream.clone(), case.read_plan.clone(), case.write_plan.clone());
    h.with(|s| s.default_read = case.default_read);
    if case.flush > 0 && which == Impl::Tokio {
        h.with(|s| {
            s.buffered = true;
            s.flush_plan = (0..4096).map(|i| i % case.flush != case.flush - 1).collect();
        });
    }
    let mut conn = Conn::new(which, &h, case.compressed, case.verify_version);
    for k in 0..refused_first {
        let bad = if k % 2 == 0 {
            insim::Packet::Cpp(insim::insim::Cpp { time: std::time::Duration::from_secs(70), ..Default::default() })
        } else {
            insim::Packet::Isi(insim::insim::Isi { interval: std::time::Duration::from_secs(70), iname: "refused".into(), ..Default::default() })
        };
        let _ = crate::ctx::guarded(|| conn.write(&h, bad));
    }
    let (_, sizes) = expected_results(&case.stream, case.compressed);
    let transient_injected = case.read_plan.iter().filter(|a| matches!(a, RAct::Error(_))).count();
    let max_calls = sizes.len() + transient_injected + 8;
    let mut out = ReadOutcome {
        results: vec![],
        transient_seen: 0,
        transient_injected,
        disconnects: 0,
        conservation_breaks: vec![],
        written: vec![],
        events: vec![],
        min_offered: usize::MAX,
        max_buffered: 0,
        capacity_growths: 0,
        calls: 0,
        runaway: false,
    };
    let mut consumed = 0usize; // bytes of frames whose result has been returned
    let mut returned_frames = 0usize;
    let mut last_cap = conn.buffer_state().1;
    loop {
        if out.calls >= max_calls {
            out.runaway = true;
            break;
        }
        out.calls += 1;
        let r = conn.read(&h);
        let (len, cap) = conn.buffer_state();
        out.max_buffered = out.max_buffered.max(len);
        if cap > last_cap {
            out.capacity_growths += 1;
        }
        last_cap = cap;
        match &r {
            ReadResult::Io(k) if TRANSIENT.contains(k) && out.transient_seen < transient_injected => {
                out.transient_seen += 1;
            },
            ReadResult::Disconnected => {
                out.disconnects += 1;
            },
            _ => {
                if returned_frames < sizes.len() {
                    consumed += sizes[returned_frames];
                }
                returned_frames += 1;
                out.results.push(r.clone());
            },
        }
        // conservation: bytes delivered by the transport = bytes of returned frames + bytes still buffered
        let delivered = h.with(|s| s.rpos);
        if !matches!(r, ReadResult::Disconnected) && delivered != consumed + len && out.conservation_breaks.len() < 3 {
            out.conservation_breaks.push(format!(
                "after call {} ({:?}): transport delivered {delivered} bytes, returned frames account for {consumed}, {len} buffered",
                out.calls,
                short(&r)
            ));
        }
        if out.disconnects >= 3 {
            break;
        }
    }
    h.with(|s| {
        out.written = s.written.clone();
        out.events = std::mem::take(&mut s.events);
        out.min_offered = s.min_offered;
    });
    out
}

pub fn short(r: &ReadResult) -> String {
    match r {
        ReadResult::Packet(d) => {
            let k: String = d.chars().take(60).collect();
            format!("Packet({k}…)")
        },
        o => format!("{:?}", o),
    }
}

/// A composition of `total` into parts, from the bits of `mask` (bit i set = cut after byte i+1).
pub fn composition(total: usize, mask: u64) -> Vec<usize> {
    let mut out = vec![];
    let mut cur = 0;
    for i in 0..total {
        cur += 1;
        if i + 1 == total || (mask >> i) & 1 == 1 {
            out.push(cur);
            cur = 0;
        }
    }
    out
}
