//! C08 — UDP datagrams are delivered intact for arbitrarily long sessions (real loopback sockets).

use std::{
    io::ErrorKind,
    net::UdpSocket,
    time::{Duration, Instant},
};

use insim::{
    net::{blocking_impl, tokio_impl, Codec},
    Packet,
};
use serde_json::json;

use crate::{
    corpus::{mode_name, real_decode, real_encode, Corpus, Dec, Enc, MODES},
    ctx::{hex, Ctx, Part, Tier},
    refspec::{GenOpts, TextMode},
    rng::Rng,
    transport::{classify, mode_of, ref_frames, Impl, ReadResult},
};

const WATCHDOG: Duration = Duration::from_secs(20);

struct Pair {
    peer: UdpSocket,
    /// clone of the connection's socket, used only to observe its kernel queue
    observer: UdpSocket,
    conn_sock: Option<UdpSocket>,
}

fn pair() -> std::io::Result<Pair> {
    let peer = UdpSocket::bind("127.0.0.1:0")?;
    let conn = UdpSocket::bind("127.0.0.1:0")?;
    conn.connect(peer.local_addr()?)?;
    peer.connect(conn.local_addr()?)?;
    let observer = conn.try_clone()?;
    Ok(Pair { peer, observer, conn_sock: Some(conn) })
}

/// Is the connection socket's kernel receive queue empty right now? (MSG_PEEK | MSG_DONTWAIT through the clone)
fn queue_empty(observer: &UdpSocket) -> bool {
    // the clone shares the file description, so toggling non-blocking on it would affect the adaptor;
    // peek with a zero-timeout instead is not available in std: use libc-free approach via set_nonblocking
    // only when the adaptor itself is non-blocking (tokio). For the blocking adaptor a 1 ms read timeout is set
    // by the caller on the shared description, so a peek returns quickly either way.
    let mut b = [0u8; 1];
    match observer.peek(&mut b) {
        Ok(_) => false,
        Err(e) if e.kind() == ErrorKind::WouldBlock || e.kind() == ErrorKind::TimedOut => true,
        Err(_) => true,
    }
}

fn wait_arrival(observer: &UdpSocket) -> bool {
    let t0 = Instant::now();
    while t0.elapsed() < WATCHDOG {
        if !queue_empty(observer) {
            return true;
        }
        std::thread::sleep(Duration::from_micros(200));
    }
    false
}

enum Conn {
    Blocking(blocking_impl::Framed),
    Tokio(tokio_impl::Framed, tokio::runtime::Runtime),
}

impl Conn {
    fn buffer_state(&self) -> (usize, usize) {
        match self {
            Conn::Blocking(f) => f.verif_buffer_state(),
            Conn::Tokio(f, _) => f.verif_buffer_state(),
        }
    }
    /// One read attempt bounded by a short wait; `None` = nothing delivered within the wait.
    fn try_read(&mut self) -> Option<ReadResult> {
        match self {
            Conn::Blocking(f) => match classify(f.read()) {
                ReadResult::Io(k) if k == ErrorKind::WouldBlock || k == ErrorKind::TimedOut => None,
                r => Some(r),
            },
            Conn::Tokio(f, rt) => rt.block_on(async {
                match tokio::time::timeout(Duration::from_millis(30), f.read()).await {
                    Ok(r) => Some(classify(r)),
                    Err(_) => None,
                }
            }),
        }
    }
    fn write(&mut self, p: Packet) -> Result<(), String> {
        match self {
            Conn::Blocking(f) => f.write(p).map_err(|e| e.to_string()),
            Conn::Tokio(f, rt) => rt.block_on(f.write(p)).map_err(|e| e.to_string()),
        }
    }
}

fn connect(which: Impl, compressed: bool, pr: &mut Pair) -> std::io::Result<Conn> {
    let sock = pr.conn_sock.take().unwrap();
    let codec = Codec::new(mode_of(compressed));
    Ok(match which {
        Impl::Blocking => {
            sock.set_read_timeout(Some(Duration::from_millis(2)))?;
            Conn::Blocking(blocking_impl::Framed::new(Box::new(blocking_impl::UdpStream::from(sock)), codec))
        },
        Impl::Tokio => {
            sock.set_nonblocking(true)?;
            let rt = tokio::runtime::Builder::new_current_thread().enable_all().build()?;
            let ts = {
                let _g = rt.enter();
                tokio::net::UdpSocket::from_std(sock)?
            };
            Conn::Tokio(tokio_impl::Framed::new(Box::new(tokio_impl::UdpStream::from(ts)), codec), rt)
        },
    })
}

/// A big MAL frame: 8 + 4n bytes (decodable for any n <= 253)
fn mal_frame(n: usize, compressed: bool, r: &mut Rng) -> Vec<u8> {
    let len = 8 + 4 * n;
    let mut f = vec![if compressed { (len / 4) as u8 } else { len as u8 }, 65, 1, n as u8, 0, 0, 0, 0];
    for i in 0..n {
        f.extend_from_slice(&(0x0100_0000u32 + (r.next_u32() & 0xffff00) + i as u32).to_le_bytes());
    }
    f
}

fn make_datagram(c: &Corpus, r: &mut Rng, compressed: bool, style: u64) -> Vec<u8> {
    let lim = if compressed { 1020 } else { 252 };
    let target = match style {
        0 => 4 + 4 * r.usize_below(16),      // small
        1 => lim,                            // as large as allowed
        2 => 4 * (1 + r.usize_below(lim / 4)), // anything
        _ => {
            if r.chance(1, 2) {
                lim
            } else {
                4 * (1 + r.usize_below(lim / 4))
            }
        },
    };
    let mut d = vec![];
    if compressed && style == 1 && r.chance(1, 3) {
        return mal_frame(253, true, r); // one 1020-byte frame
    }
    let mut guard = 0;
    while d.len() < target && guard < 200 {
        guard += 1;
        let left = target - d.len();
        let f = if left >= 12 && r.chance(1, 5) {
            mal_frame(((left - 8) / 4).min(if compressed { 253 } else { 61 }), compressed, r)
        } else if r.chance(1, 6) {
            vec![if compressed { 1 } else { 4 }, 3, 0, 0] // keep-alive
        } else {
            let lay = r.pick(c.kinds());
            let o = GenOpts { text: TextMode::Ascii, max_list: Some(6), boundary: 4, hostile: false };
            match c.ref_frame(r, lay, &o, compressed) {
                Some((_, f)) => f,
                None => continue,
            }
        };
        if f.len() <= left {
            d.extend(f);
        } else if left == 4 {
            d.extend_from_slice(&[if compressed { 1 } else { 4 }, 3, 5, 3]);
        }
    }
    if d.is_empty() {
        d.extend_from_slice(&[if compressed { 1 } else { 4 }, 3, 5, 3]);
    }
    d
}

fn session(c: &Corpus, which: Impl, compressed: bool, style: u64, total_bytes: usize, r: &mut Rng, p: &mut Part) -> Result<(usize, usize), String> {
    let mut pr = pair().map_err(|e| format!("socket setup: {e}"))?;
    let mut conn = connect(which, compressed, &mut pr).map_err(|e| format!("connect: {e}"))?;
    if which == Impl::Blocking {
        // observer shares the description: its peeks also time out after 2 ms
    } else {
        // non-blocking description: peeks return WouldBlock immediately
    }
    pr.peer.set_read_timeout(Some(Duration::from_millis(200))).map_err(|e| e.to_string())?;
    let mut sent = 0usize;
    let mut datagrams = 0usize;
    let mut min_spare = usize::MAX;
    let label = format!("{}-{}-style{style}", which.name(), mode_name(compressed));
    while sent < total_bytes {
        // a burst of 1..4 datagrams, far below SO_RCVBUF
        let burst: Vec<Vec<u8>> = (0..1 + r.usize_below(4)).map(|_| make_datagram(c, r, compressed, style)).collect();
        let mut owed: Vec<ReadResult> = vec![];
        let mut expected_replies = 0usize;
        for d in &burst {
            let (frames, rest) = ref_frames(d, compressed);
            if !rest.is_empty() {
                return Err("generator produced a datagram that is not whole frames".into());
            }
            for f in frames {
                if f.len() == 4 && f[1] == 3 && f[2] == 0 && f[3] == 0 {
                    expected_replies += 1;
                }
                owed.push(match real_decode(f, compressed) {
                    Dec::Packet(q, _) => ReadResult::Packet(format!("{:?}", q)),
                    _ => ReadResult::DecodeErr,
                });
            }
            p.distinct(&(compressed, d));
            let n = pr.peer.send(d).map_err(|e| format!("peer send failed: {e}"))?;
            if n != d.len() {
                return Err("peer send was short".into());
            }
            sent += d.len();
            datagrams += 1;
        }
        if !wait_arrival(&pr.observer) {
            return Err("datagram did not arrive at the connection's socket within the watchdog".into());
        }
        let t0 = Instant::now();
        let mut got = 0usize;
        let mut idle_with_empty_queue = 0;
        while got < owed.len() {
            if t0.elapsed() > WATCHDOG {
                return Err("reads made no progress before the watchdog although data is queued".into());
            }
            let (len, cap) = conn.buffer_state();
            min_spare = min_spare.min(cap - len);
            p.evaluations += 1;
            match conn.try_read() {
                Some(r) => {
                    idle_with_empty_queue = 0;
                    if r != owed[got] {
                        p.violation(
                            format!("C08/{}/packet-differs", which.name()),
                            format!("{label}: after {sent} bytes of traffic, packet #{got} of the burst is {} but the peer sent {}", crate::sess::short(&r), crate::sess::short(&owed[got])),
                            json!({"impl": which.name(), "mode": mode_name(compressed), "cumulative_bytes": sent, "burst": burst.iter().map(|d| hex(&d[..d.len().min(128)])).collect::<Vec<_>>(), "burst_sizes": burst.iter().map(|d| d.len()).collect::<Vec<_>>()}),
                        );
                        return Ok((sent, datagrams));
                    }
                    got += 1;
                },
                None => {
                    // nothing delivered: is the datagram still in the kernel, or was it swallowed?
                    if queue_empty(&pr.observer) {
                        idle_with_empty_queue += 1;
                        // two consecutive observations with an empty queue: the adaptor consumed the
                        // datagram(s) but the connection still owes packets
                        if idle_with_empty_queue >= 3 {
                            let (len, cap) = conn.buffer_state();
                            p.violation(
                                format!("C08/{}/datagram-swallowed", which.name()),
                                format!(
                                    "{label}: after {sent} bytes of traffic the kernel queue is empty, {} packets of the last burst (datagram sizes {:?}) are still owed; connection buffer holds {len} bytes with {} spare",
                                    owed.len() - got,
                                    burst.iter().map(|d| d.len()).collect::<Vec<_>>(),
                                    cap - len
                                ),
                                json!({"impl": which.name(), "mode": mode_name(compressed), "cumulative_bytes": sent, "owed": owed.len() - got, "buffer_len": len, "buffer_spare": cap - len, "burst_sizes": burst.iter().map(|d| d.len()).collect::<Vec<_>>()}),
                            );
                            return Ok((sent, datagrams));
                        }
                    } else {
                        idle_with_empty_queue = 0;
                    }
                },
            }
        }
        // a read on the idle socket now and then (a quiet peer): it must report "nothing yet" (time-out / would block) and
        // leave the connection as it was - the traffic that follows is judged as before
        if r.chance(1, 40) {
            p.evaluations += 1;
            if let Some(x) = conn.try_read() {
                p.violation(
                    format!("C08/{}/result-on-idle-socket", which.name()),
                    format!("{label}: after {sent} bytes of traffic everything sent was delivered, yet a further read returned {}", crate::sess::short(&x)),
                    json!({"impl": which.name(), "mode": mode_name(compressed), "cumulative_bytes": sent}),
                );
                return Ok((sent, datagrams));
            }
            p.count("idle_reads", 1);
        }
        // keep-alive replies arrive at the peer as one datagram each
        let reply = if compressed { [1u8, 3, 0, 0] } else { [4u8, 3, 0, 0] };
        let mut buf = [0u8; 2048];
        for _ in 0..expected_replies {
            match pr.peer.recv(&mut buf) {
                Ok(n) if buf[..n] == reply => {},
                Ok(n) => {
                    p.violation(format!("C08/{}/keepalive-reply-datagram", which.name()), format!("{label}: keep-alive reply datagram is {}", hex(&buf[..n])), json!({"impl": which.name()}));
                    return Ok((sent, datagrams));
                },
                Err(e) => {
                    p.violation(format!("C08/{}/keepalive-reply-missing", which.name()), format!("{label}: keep-alive reply did not arrive: {e}"), json!({"impl": which.name()}));
                    return Ok((sent, datagrams));
                },
            }
        }
    }
    p.count(&format!("min_spare_{}", which.name()), 0);
    p.distinct(&(label.clone(), sent));
    let _ = min_spare;
    // ---- writes: one datagram per packet, holding exactly its frame -----------------------------------
    pr.peer.set_read_timeout(Some(Duration::from_secs(5))).map_err(|e| e.to_string())?;
    for wi in 0..40 {
        // every third packet is a list-bearing kind filled to its protocol maximum (frames up to 1020 / 252 bytes)
        let big = wi % 3 == 0;
        const BIG: [&str; 7] = ["MAL", "MCI", "AXM", "NLP", "IPB", "PLH", "HOS"];
        let lay = if big { c.spec.packet(BIG[r.usize_below(BIG.len())]) } else { r.pick(c.kinds()) };
        let o = GenOpts { text: TextMode::Ascii, max_list: if big { None } else { Some(20) }, boundary: 4, hostile: false };
        let pk = if big && compressed && wi % 2 == 0 {
            // frames beyond 508 bytes exist only with element counts above the protocol's usual maxima (the library
            // does not cap these kinds): replicate the element of a one-element reference frame
            const SHAPES: [(&str, usize, usize); 5] = [("MCI", 4, 28), ("NLP", 4, 6), ("AXM", 8, 8), ("PLH", 4, 4), ("HOS", 4, 40)];
            let (kind, hdr, el) = SHAPES[r.usize_below(SHAPES.len())];
            let o1 = GenOpts { text: TextMode::Ascii, max_list: Some(1), boundary: 4, hostile: false };
            let Some((_, f1)) = (0..50).find_map(|_| c.ref_frame(r, c.spec.packet(kind), &o1, true).filter(|(_, f)| f[3] == 1)) else { continue };
            let nmax = ((1020 - hdr) / el).min(255);
            let nmin = (508 - hdr) / el + 1;
            let n = nmin + r.usize_below(nmax - nmin + 1);
            let mut f = f1[..hdr].to_vec();
            for _ in 0..n {
                f.extend_from_slice(&f1[hdr..hdr + el]);
            }
            while f.len() % 4 != 0 {
                f.push(0);
            }
            f[3] = n as u8;
            f[0] = (f.len() / 4) as u8;
            match real_decode(&f, true) {
                Dec::Packet(q, _) => q,
                _ => continue,
            }
        } else {
            let Ok((_, pk)) = c.packet(r, lay, &o) else { continue };
            pk
        };
        let Enc::Ok(enc) = real_encode(&pk, compressed) else { continue };
        p.evaluations += 1;
        p.count(if enc.len() > 508 { "written_frames_over_508_bytes" } else { "written_frames_up_to_508_bytes" }, 1);
        if let Err(e) = conn.write(pk) {
            p.violation(format!("C08/{}/write-failed", which.name()), format!("{label}: write of a {}-byte frame failed: {e}", enc.len()), json!({"impl": which.name()}));
            break;
        }
        let mut buf = [0u8; 2048];
        match pr.peer.recv(&mut buf) {
            Ok(n) => {
                if buf[..n] != enc[..] {
                    p.violation(
                        format!("C08/{}/written-datagram-differs", which.name()),
                        format!("{label}: wrote a {}-byte frame, peer received a {n}-byte datagram", enc.len()),
                        json!({"impl": which.name(), "frame": hex(&enc), "datagram": hex(&buf[..n])}),
                    );
                    break;
                }
            },
            Err(e) => {
                p.violation(format!("C08/{}/written-datagram-missing", which.name()), format!("{label}: no datagram arrived for a written packet: {e}"), json!({"impl": which.name()}));
                break;
            },
        }
        pr.peer.set_nonblocking(true).ok();
        let extra = pr.peer.recv(&mut buf);
        pr.peer.set_nonblocking(false).ok();
        if let Ok(n) = extra {
            p.violation(format!("C08/{}/extra-datagram", which.name()), format!("{label}: one write produced a second datagram of {n} bytes"), json!({"impl": which.name()}));
            break;
        }
    }
    Ok((sent, datagrams))
}

/// The same traffic through a connection made by `Builder::udp(..).connect_blocking()/connect_async()`, which is
/// how users obtain a UDP connection. Stop-and-wait: one datagram at a time, so the connection's kernel queue
/// holds at most that datagram. A datagram whose packets are not delivered is judged lost only if a sentinel
/// sent after it does come through (loopback UDP keeps order), otherwise the session is inconclusive.
fn builder_session(c: &Corpus, which: Impl, compressed: bool, style: u64, total_bytes: usize, r: &mut Rng, p: &mut Part) -> Result<(usize, usize), String> {
    use insim::{builder::Builder, net::Mode};
    let peer = UdpSocket::bind("127.0.0.1:0").map_err(|e| e.to_string())?;
    peer.set_read_timeout(Some(Duration::from_secs(10))).map_err(|e| e.to_string())?;
    let remote = peer.local_addr().map_err(|e| e.to_string())?;
    let b = Builder::new().udp(remote, None).mode(if compressed { Mode::Compressed } else { Mode::Uncompressed }).verify_version(false).connect_timeout(Duration::from_secs(10));
    let label = format!("builder-{}-{}-style{style}", which.name(), mode_name(compressed));
    let mut conn = match which {
        Impl::Blocking => Conn::Blocking(b.connect_blocking().map_err(|e| format!("{label}: connect_blocking: {e}"))?),
        Impl::Tokio => {
            let rt = tokio::runtime::Builder::new_current_thread().enable_all().build().map_err(|e| e.to_string())?;
            let f = rt.block_on(b.connect_async()).map_err(|e| format!("{label}: connect_async: {e}"))?;
            Conn::Tokio(f, rt)
        },
    };
    // the handshake datagram tells the peer where the connection lives
    let mut buf = [0u8; 2048];
    let (_, from) = peer.recv_from(&mut buf).map_err(|e| format!("{label}: no ISI datagram: {e}"))?;
    peer.connect(from).map_err(|e| e.to_string())?;
    let sentinel = vec![if compressed { 1u8 } else { 4 }, 3, 201, 3];
    let sentinel_result = match real_decode(&sentinel, compressed) {
        Dec::Packet(q, _) => ReadResult::Packet(format!("{:?}", q)),
        _ => return Err("sentinel does not decode".into()),
    };
    // A blocking connection made by the builder has no read timeout, and a connection that dropped part of a
    // datagram may wait for bytes that never come. A feeder thread therefore sends a sentinel whenever a read has
    // been outstanding for 2 s: every read eventually returns, and a sentinel that overtakes owed packets shows
    // that they were consumed from the socket but not delivered.
    use std::sync::{
        atomic::{AtomicBool, AtomicUsize, Ordering},
        Arc, Mutex,
    };
    let fed = Arc::new(AtomicUsize::new(0));
    let stop = Arc::new(AtomicBool::new(false));
    let waiting_since: Arc<Mutex<Option<Instant>>> = Arc::new(Mutex::new(None));
    let feeder = {
        let (fed, stop, waiting_since, sentinel) = (fed.clone(), stop.clone(), waiting_since.clone(), sentinel.clone());
        let sock = peer.try_clone().map_err(|e| e.to_string())?;
        std::thread::spawn(move || {
            while !stop.load(Ordering::SeqCst) {
                std::thread::sleep(Duration::from_millis(100));
                let overdue = waiting_since.lock().unwrap().map(|t| t.elapsed() > Duration::from_secs(2)).unwrap_or(false);
                if overdue && fed.load(Ordering::SeqCst) < 50 {
                    if sock.send(&sentinel).is_ok() {
                        let _ = fed.fetch_add(1, Ordering::SeqCst);
                    }
                    *waiting_since.lock().unwrap() = Some(Instant::now());
                }
            }
        })
    };
    let read_one = |conn: &mut Conn| -> Option<ReadResult> {
        *waiting_since.lock().unwrap() = Some(Instant::now());
        let r = match conn {
            Conn::Blocking(f) => Some(classify(f.read())),
            Conn::Tokio(f, rt) => rt.block_on(async {
                match tokio::time::timeout(Duration::from_secs(30), f.read()).await {
                    Ok(r) => Some(classify(r)),
                    Err(_) => None,
                }
            }),
        };
        *waiting_since.lock().unwrap() = None;
        r
    };
    let mut sent = 0usize;
    let mut datagrams = 0usize;
    let mut sentinels_seen = 0usize;
    let mut outcome: Result<(), String> = Ok(());
    'session: while sent < total_bytes {
        let d = make_datagram(c, r, compressed, style);
        let (frames, rest) = ref_frames(&d, compressed);
        if !rest.is_empty() {
            outcome = Err("generator produced a datagram that is not whole frames".into());
            break;
        }
        let owed: Vec<ReadResult> = frames
            .iter()
            .map(|f| match real_decode(f, compressed) {
                Dec::Packet(q, _) => ReadResult::Packet(format!("{:?}", q)),
                _ => ReadResult::DecodeErr,
            })
            .collect();
        let replies = frames.iter().filter(|f| f.len() == 4 && f[1] == 3 && f[2] == 0 && f[3] == 0).count();
        p.distinct(&(compressed, &d));
        // sentinels fed up to here were sent before this datagram and arrive before it
        let stale = fed.load(Ordering::SeqCst);
        if let Err(e) = peer.send(&d) {
            outcome = Err(format!("peer send failed: {e}"));
            break;
        }
        sent += d.len();
        datagrams += 1;
        let replay = json!({"impl": which.name(), "mode": mode_name(compressed), "via": "builder", "cumulative_bytes": sent, "datagram_size": d.len(), "datagram": hex(&d[..d.len().min(160)])});
        let mut got = 0usize;
        while got < owed.len() {
            p.evaluations += 1;
            match read_one(&mut conn) {
                Some(x) if x == sentinel_result && sentinels_seen < stale => sentinels_seen += 1,
                Some(x) if x == owed[got] => got += 1,
                Some(x) => {
                    let what = if x == sentinel_result { "datagram-swallowed" } else { "packet-differs" };
                    p.violation(
                        format!("C08/{}/{what}", which.name()),
                        format!("{label}: after {sent} bytes of traffic, packet #{got} of a {}-byte datagram is {} but the peer sent {}", d.len(), crate::sess::short(&x), crate::sess::short(&owed[got])),
                        replay,
                    );
                    break 'session;
                },
                None => {
                    outcome = Err(format!("{label}: a read did not return within 30 s although sentinels were fed (after {sent} bytes)"));
                    break 'session;
                },
            }
        }
        let reply = if compressed { [1u8, 3, 0, 0] } else { [4u8, 3, 0, 0] };
        for _ in 0..replies {
            match peer.recv(&mut buf) {
                Ok(n) if buf[..n] == reply => {},
                Ok(n) => {
                    p.violation(format!("C08/{}/keepalive-reply-datagram", which.name()), format!("{label}: keep-alive reply datagram is {}", hex(&buf[..n])), json!({"impl": which.name(), "via": "builder"}));
                    break 'session;
                },
                Err(e) => {
                    p.violation(format!("C08/{}/keepalive-reply-missing", which.name()), format!("{label}: keep-alive reply did not arrive: {e}"), json!({"impl": which.name(), "via": "builder"}));
                    break 'session;
                },
            }
        }
    }
    stop.store(true, Ordering::SeqCst);
    let _ = feeder.join();
    outcome?;
    p.distinct(&(label, sent));
    Ok((sent, datagrams))
}

/// The tokio adaptor also implements the synchronous `std::io::Read` / `Write` (a non-blocking `try_recv` read).
/// Datagrams of every size are read through it with caller slices of arbitrary sizes; what comes out must be the
/// concatenation of what the peer sent. Each datagram is followed by a 4-byte sentinel datagram, so a datagram
/// that was cut short shows up as "sentinel before all bytes" instead of a wait that never ends.
fn tokio_sync_read_session(c: &Corpus, compressed: bool, total_bytes: usize, r: &mut Rng, p: &mut Part) -> Result<(usize, usize), String> {
    use std::io::{Read, Write};
    let rt = tokio::runtime::Builder::new_current_thread().enable_all().build().map_err(|e| e.to_string())?;
    let mut pr = pair().map_err(|e| format!("socket setup: {e}"))?;
    let sock = pr.conn_sock.take().unwrap();
    sock.set_nonblocking(true).map_err(|e| e.to_string())?;
    let label = format!("tokio-adaptor-sync-read-{}", mode_name(compressed));
    let sentinel = [if compressed { 1u8 } else { 4 }, 3, 201, 3];
    pr.peer.set_read_timeout(Some(Duration::from_secs(5))).map_err(|e| e.to_string())?;
    let peer = &pr.peer;
    rt.block_on(async {
        let ts = tokio::net::UdpSocket::from_std(sock).map_err(|e| e.to_string())?;
        let mut stream = tokio_impl::UdpStream::from(ts);
        let mut sent = 0usize;
        let mut datagrams = 0usize;
        while sent < total_bytes {
            let d = make_datagram(c, r, compressed, 3);
            p.distinct(&(compressed, &d));
            peer.send(&d).map_err(|e| format!("peer send failed: {e}"))?;
            peer.send(&sentinel).map_err(|e| format!("peer send failed: {e}"))?;
            sent += d.len();
            datagrams += 1;
            let mut want = d.clone();
            want.extend_from_slice(&sentinel);
            let mut got: Vec<u8> = vec![];
            let t0 = Instant::now();
            let slice_cap = if r.chance(1, 2) { 64 } else { 2048 };
            let slice = 1 + r.usize_below(slice_cap);
            let mut buf = vec![0u8; slice];
            while got.len() < want.len() {
                if t0.elapsed() > WATCHDOG {
                    break;
                }
                p.evaluations += 1;
                match stream.read(&mut buf) {
                    Ok(0) => tokio::time::sleep(Duration::from_micros(50)).await,
                    Ok(n) => {
                        got.extend_from_slice(&buf[..n]);
                        if got.ends_with(&sentinel) && got.len() < want.len() {
                            break; // the sentinel overtook bytes of the datagram: they will never come
                        }
                    },
                    Err(e) if e.kind() == ErrorKind::WouldBlock => tokio::time::sleep(Duration::from_micros(50)).await,
                    Err(e) => return Err(format!("{label}: read failed: {e}")),
                }
            }
            if got != want {
                if got.len() < want.len() && !got.ends_with(&sentinel) {
                    return Err(format!("{label}: neither the datagram nor its sentinel arrived completely within the watchdog ({} of {} bytes)", got.len(), want.len()));
                }
                let at = got.iter().zip(want.iter()).position(|(a, b)| a != b).unwrap_or(got.len().min(want.len()));
                p.violation(
                    "C08/tokio/sync-read/bytes-differ",
                    format!("{label}: after {sent} bytes of traffic a {}-byte datagram read through std::io::Read with a {slice}-byte slice yields {} bytes before its sentinel (first difference at {at})", d.len(), got.len().saturating_sub(4)),
                    json!({"mode": mode_name(compressed), "cumulative_bytes": sent, "datagram_size": d.len(), "slice": slice, "got_len": got.len()}),
                );
                return Ok((sent, datagrams));
            }
        }
        // synchronous write: one datagram per call
        for _ in 0..10 {
            let d = make_datagram(c, r, compressed, 2);
            p.evaluations += 1;
            match stream.write(&d) {
                Ok(n) if n == d.len() => {},
                other => {
                    p.violation("C08/tokio/sync-write", format!("{label}: write of a {}-byte frame returned {:?}", d.len(), other.map_err(|e| e.to_string())), json!({"len": d.len()}));
                    break;
                },
            }
            let mut b = [0u8; 2048];
            match peer.recv(&mut b) {
                Ok(n) if b[..n] == d[..] => {},
                Ok(n) => {
                    p.violation("C08/tokio/sync-write", format!("{label}: wrote {} bytes, the peer received a {n}-byte datagram", d.len()), json!({"len": d.len()}));
                    break;
                },
                Err(e) => return Err(format!("{label}: no datagram for a synchronous write: {e}")),
            }
        }
        p.distinct(&(label.clone(), sent));
        Ok((sent, datagrams))
    })
}

/// The peer is not there for a while (the program was started before LFS listens): sends are refused by the OS
/// (ICMP port unreachable -> ECONNREFUSED on the next call). When the peer is back, every write that returns Ok must
/// leave as exactly one datagram holding exactly its own frame - nothing of the refused ones.
fn refused_send_session(which: Impl, compressed: bool, p: &mut Part) -> Result<(), String> {
    use insim::{
        identifiers::RequestId,
        insim::{Tiny, TinyType},
    };
    let mut pr = pair().map_err(|e| format!("socket setup: {e}"))?;
    let peer_addr = pr.peer.local_addr().map_err(|e| e.to_string())?;
    let conn_addr = pr.observer.local_addr().map_err(|e| e.to_string())?;
    let mut conn = connect(which, compressed, &mut pr).map_err(|e| format!("connect: {e}"))?;
    let label = format!("refused-send-{}-{}", which.name(), mode_name(compressed));
    let packet = |k: u8| Packet::Tiny(Tiny { reqi: RequestId(k), subt: TinyType::Ping });
    let frame = |k: u8| vec![if compressed { 1u8 } else { 4 }, 3, k, 3];
    // the peer goes away
    let Pair { peer, observer, .. } = pr;
    drop(peer);
    let mut refused = 0;
    for k in 1..=4u8 {
        if conn.write(packet(k)).is_err() {
            refused += 1;
        }
        std::thread::sleep(Duration::from_millis(5));
    }
    // ... and comes back on the same port
    let peer = match UdpSocket::bind(peer_addr) {
        Ok(s) => s,
        Err(_) => {
            p.count("refused_send_port_not_rebindable", 1);
            return Ok(());
        },
    };
    peer.connect(conn_addr).map_err(|e| e.to_string())?;
    peer.set_read_timeout(Some(Duration::from_secs(3))).map_err(|e| e.to_string())?;
    let mut expected: Vec<Vec<u8>> = vec![];
    for k in 100..=105u8 {
        if conn.write(packet(k)).is_ok() {
            expected.push(frame(k));
        }
        std::thread::sleep(Duration::from_millis(1));
    }
    p.evaluations += 1;
    p.distinct(&label);
    p.count("refused_sends_observed", refused);
    if expected.is_empty() {
        return Err(format!("{label}: no write succeeded after the peer came back"));
    }
    let mut got: Vec<Vec<u8>> = vec![];
    let mut b = [0u8; 2048];
    while got.len() < expected.len() + 2 {
        match peer.recv(&mut b) {
            Ok(n) => got.push(b[..n].to_vec()),
            Err(_) => break,
        }
        if got.len() >= expected.len() {
            peer.set_read_timeout(Some(Duration::from_millis(50))).ok();
        }
    }
    if got != expected {
        p.violation(
            format!("C08/{}/datagram-after-refused-send", which.name()),
            format!("{label}: {refused} sends were refused while the peer was away; afterwards {} writes returned Ok, the peer received {:?} instead of {:?}", expected.len(), got.iter().map(|d| hex(d)).collect::<Vec<_>>(), expected.iter().map(|d| hex(d)).collect::<Vec<_>>()),
            json!({"impl": which.name(), "mode": mode_name(compressed), "refused": refused}),
        );
    }
    drop(observer);
    Ok(())
}

pub fn run(ctx: &mut Ctx) -> (&'static str, String, bool) {
    let c = match Corpus::load() {
        Ok(c) => c,
        Err(e) => {
            ctx.inconclusive(format!("cannot load the reference specification: {e}"));
            return ("exploration", "spec missing".into(), false);
        },
    };
    let asan = ctx.stage.as_deref() == Some("asan");
    let factor = if asan { 12 } else if ctx.tier == Tier::Thorough { 60 } else { 10 };
    let mut p = Part::new();
    let mut r = ctx.rng.fork(8);
    let mut total_sent = 0usize;
    let mut total_dgrams = 0usize;
    let mut sessions = 0;
    for which in [Impl::Blocking, Impl::Tokio] {
        for compressed in MODES {
            for style in 0..4u64 {
                match session(&c, which, compressed, style, 6120 * factor, &mut r, &mut p) {
                    Ok((s, d)) => {
                        total_sent += s;
                        total_dgrams += d;
                        sessions += 1;
                        if sessions <= 2 {
                            p.sample(json!({"impl": which.name(), "mode": mode_name(compressed), "style": style, "bytes": s, "datagrams": d}));
                        }
                    },
                    Err(e) => ctx.inconclusive(format!("{} {} style {style}: {e}", which.name(), mode_name(compressed))),
                }
            }
        }
    }
    // connections obtained from the builder
    let mut builder_sessions = 0;
    for which in [Impl::Blocking, Impl::Tokio] {
        for compressed in MODES {
            for style in [1u64, 3] {
                match builder_session(&c, which, compressed, style, 6120 * factor.min(12), &mut r, &mut p) {
                    Ok((s, d)) => {
                        total_sent += s;
                        total_dgrams += d;
                        builder_sessions += 1;
                    },
                    Err(e) => ctx.inconclusive(format!("{} {} style {style} via builder: {e}", which.name(), mode_name(compressed))),
                }
            }
        }
    }
    for compressed in MODES {
        match tokio_sync_read_session(&c, compressed, 6120 * factor.min(12), &mut r, &mut p) {
            Ok((s, d)) => {
                total_sent += s;
                total_dgrams += d;
            },
            Err(e) => ctx.inconclusive(format!("tokio adaptor, synchronous read, {}: {e}", mode_name(compressed))),
        }
    }
    for which in [Impl::Blocking, Impl::Tokio] {
        for compressed in MODES {
            if let Err(e) = refused_send_session(which, compressed, &mut p) {
                ctx.inconclusive(format!("refused-send session: {e}"));
            }
        }
    }
    ctx.extra("builder_sessions", json!(builder_sessions));
    ctx.merge(p);
    ctx.extra("sessions", json!(sessions));
    ctx.extra("bytes_received_through_connections", json!(total_sent));
    ctx.extra("datagrams_sent_by_peer", json!(total_dgrams));
    ctx.extra("receive_buffer_multiples_per_session", json!(factor));
    ctx.assume("no kernel-level loss on loopback: bursts are 1-4 datagrams, far below SO_RCVBUF; arrival is confirmed by peeking before a read is judged");
    ctx.assume("loss is decided by observing an empty kernel queue (three consecutive observations) while packets are owed, never by a timeout alone");
    (
        "exploration",
        "real loopback UDP socket pairs; per {blocking,tokio} x {compressed,uncompressed} x 4 datagram-size styles (small, maximal incl. a single 1020-byte frame, uniform, bimodal): bursts of 1-4 datagrams of 1..n frames until several times the 6120-byte buffer has passed through, every delivered packet compared with the isolated decoding of the sent frames; then 40 writes (a third of them maximum-size list packets) observed as exactly one datagram each; the same traffic (maximal and bimodal sizes) through connections made by Builder::udp(..).connect_blocking()/connect_async(), one datagram at a time with an in-order sentinel deciding loss; writes around a period in which the OS refuses sends (peer away, ECONNREFUSED); the tokio adaptor's synchronous std::io::Read / Write with caller slices of 1..2048 bytes; distinct = distinct (mode, datagram) sent by the peer".into(),
        false,
    )
}
