//! Readers and writers that behave like real byte streams rather than like an in-memory cursor: a read may return
//! fewer bytes than asked for and a write may accept fewer bytes than offered (`std::io::Read::read` /
//! `Write::write` contracts). The packet types implement the public `BinRead` / `BinWrite` traits for any such
//! stream, so `read` where `read_exact` is needed (or `write` for `write_all`) only shows through these.

use std::io::{Cursor, Read, Result, Seek, SeekFrom, Write};

/// Returns at most `max` bytes per `read` call.
pub struct ChunkReader {
    pub inner: Cursor<Vec<u8>>,
    pub max: usize,
}

impl ChunkReader {
    pub fn new(bytes: &[u8], max: usize) -> Self {
        ChunkReader { inner: Cursor::new(bytes.to_vec()), max: max.max(1) }
    }
}

impl Read for ChunkReader {
    fn read(&mut self, buf: &mut [u8]) -> Result<usize> {
        let n = buf.len().min(self.max);
        self.inner.read(&mut buf[..n])
    }
}

impl Seek for ChunkReader {
    fn seek(&mut self, pos: SeekFrom) -> Result<u64> {
        self.inner.seek(pos)
    }
}

/// Accepts at most `max` bytes per `write` call.
pub struct ShortSink {
    pub inner: Cursor<Vec<u8>>,
    pub max: usize,
}

impl ShortSink {
    pub fn new(max: usize) -> Self {
        ShortSink { inner: Cursor::new(vec![]), max: max.max(1) }
    }
    pub fn bytes(self) -> Vec<u8> {
        self.inner.into_inner()
    }
}

impl Write for ShortSink {
    fn write(&mut self, buf: &[u8]) -> Result<usize> {
        let n = buf.len().min(self.max);
        self.inner.write(&buf[..n])
    }
    fn flush(&mut self) -> Result<()> {
        Ok(())
    }
}

impl Seek for ShortSink {
    fn seek(&mut self, pos: SeekFrom) -> Result<u64> {
        self.inner.seek(pos)
    }
}
