//! C14 — Track table is coherent: code, wire bytes, flags and licence agree.

use std::{collections::BTreeMap, io::Cursor};

use insim_core::{
    binrw::{BinRead, BinWrite},
    track::Track,
};
use rayon::prelude::*;
use serde_json::json;

use crate::ctx::{guarded, hex, Ctx, Part};

use crate::bind::all_tracks;

fn decode(b: &[u8; 6]) -> Result<Track, String> {
    Track::read_le(&mut Cursor::new(&b[..])).map_err(|e| e.to_string())
}

fn encode(t: &Track) -> Result<Vec<u8>, String> {
    let mut c = Cursor::new(Vec::with_capacity(6));
    t.write_le(&mut c).map_err(|e| e.to_string())?;
    Ok(c.into_inner())
}

fn wire_of(code: &str) -> Option<[u8; 6]> {
    let b = code.as_bytes();
    if b.len() > 6 || b.is_empty() {
        return None;
    }
    let mut w = [0u8; 6];
    w[..b.len()].copy_from_slice(b);
    Some(w)
}

pub fn run(ctx: &mut Ctx) -> (&'static str, String, bool) {
    let tracks = all_tracks();
    ctx.extra("variants_in_enum_declaration", json!(tracks.len()));
    if tracks.len() < 2 {
        ctx.inconclusive("fewer than 2 track variants parsed from the enum declaration");
    }

    // ---- per-variant table coherence -------------------------------------------------------
    let mut wire_to_variant: BTreeMap<[u8; 6], &'static str> = BTreeMap::new();
    let mut area_license: BTreeMap<String, (String, String)> = BTreeMap::new();
    for (name, t) in &tracks {
        ctx.eval();
        ctx.distinct(&("variant", name));
        let r = guarded(|| {
            let code = t.code();
            (code, encode(t), t.is_reverse(), t.is_open(), t.distance_mile(), t.license(), t.to_string())
        });
        let (code, wire, rev, open, dist, lic, _display) = match r {
            Ok(x) => x,
            Err(pn) => {
                ctx.violation(format!("C14/accessor-panic/{name}"), format!("accessor of Track::{name} panicked: {pn}"), json!({"variant": name}));
                continue;
            },
        };
        let expect = wire_of(&code);
        let wire = match wire {
            Ok(w) => w,
            Err(e) => {
                ctx.violation(format!("C14/write-error/{name}"), format!("Track::{name} cannot be written: {e}"), json!({"variant": name}));
                continue;
            },
        };
        if expect.map(|e| e.to_vec()) != Some(wire.clone()) {
            ctx.violation(
                format!("C14/wire-not-code/{name}"),
                format!("Track::{name}: code {:?} but wire form {}", code, hex(&wire)),
                json!({"variant": name, "code": code, "wire": hex(&wire)}),
            );
        }
        if name.to_ascii_uppercase() != code {
            ctx.violation(
                format!("C14/code-not-variant/{name}"),
                format!("Track::{name} reports short code {:?}", code),
                json!({"variant": name, "code": code}),
            );
        }
        if wire.len() == 6 {
            let mut w6 = [0u8; 6];
            w6.copy_from_slice(&wire);
            match guarded(|| decode(&w6)) {
                Ok(Ok(back)) if &back == t => {},
                other => ctx.violation(
                    format!("C14/roundtrip/{name}"),
                    format!("Track::{name} wire {} decodes to {:?}", hex(&wire), other),
                    json!({"variant": name, "wire": hex(&wire)}),
                ),
            }
            // the same six bytes from a stream that hands them over in pieces, and written into a writer that takes
            // them in pieces (the BinRead / BinWrite impls are public and generic over the stream)
            for max in [1usize, 2, 5] {
                let mut rd = crate::ioadapt::ChunkReader::new(&w6, max);
                match guarded(|| Track::read_le(&mut rd).map_err(|e| e.to_string())) {
                    Ok(Ok(back)) if &back == t => {},
                    other => ctx.violation(
                        format!("C14/roundtrip-chunked-reader/{name}"),
                        format!("Track::{name} wire {} read {max} byte(s) at a time decodes to {:?}", hex(&wire), other),
                        json!({"variant": name, "wire": hex(&wire), "bytes_per_read": max}),
                    ),
                }
                let mut sink = crate::ioadapt::ShortSink::new(max);
                match guarded(|| t.write_le(&mut sink).map_err(|e| e.to_string())) {
                    Ok(Ok(())) if sink.inner.get_ref()[..] == w6 => {},
                    other => ctx.violation(
                        format!("C14/wire-short-writer/{name}"),
                        format!("Track::{name} written {max} byte(s) at a time gives {} ({:?})", hex(sink.inner.get_ref()), other),
                        json!({"variant": name, "bytes_per_write": max}),
                    ),
                }
            }
            if let Some(prev) = wire_to_variant.insert(w6, name) {
                ctx.violation(
                    format!("C14/wire-shared/{name}"),
                    format!("Track::{name} and Track::{prev} share wire form {}", hex(&wire)),
                    json!({"variants": [name, prev], "wire": hex(&wire)}),
                );
            }
        }
        let last = code.chars().last().unwrap_or(' ');
        let exp_rev = last == 'R' || last == 'Y';
        let exp_open = last == 'X' || last == 'Y';
        if rev != exp_rev {
            ctx.violation(format!("C14/is_reverse/{name}"), format!("Track::{name} (code {code}) is_reverse()={rev}"), json!({"variant": name}));
        }
        if open != exp_open {
            ctx.violation(format!("C14/is_open/{name}"), format!("Track::{name} (code {code}) is_open()={open}"), json!({"variant": name}));
        }
        // "no lap distance" holds in either unit
        if exp_open {
            let km = guarded(|| t.distance_km()).ok().flatten();
            if km.is_some() {
                ctx.violation(format!("C14/open-has-distance/{name}"), format!("open configuration Track::{name} has lap distance {:?} km", km), json!({"variant": name}));
            }
        }
        if exp_open && dist.is_some() {
            ctx.violation(format!("C14/open-has-distance/{name}"), format!("open configuration Track::{name} has lap distance {:?}", dist), json!({"variant": name}));
        }
        let area: String = code.chars().take(2).collect();
        let lic_s = format!("{:?}", lic);
        match area_license.get(&area) {
            None => {
                let _ = area_license.insert(area, (lic_s.clone(), name.to_string()));
            },
            Some((l, first)) if *l != lic_s => {
                ctx.violation(
                    format!("C14/license-differs-within-area/{name}"),
                    format!("Track::{name} needs {lic_s} but Track::{first} of the same area needs {l}"),
                    json!({"variant": name, "other": first}),
                );
            },
            _ => {},
        }
        if ctx.part.samples.len() < 4 {
            ctx.sample(json!({"variant": name, "code": code, "wire": hex(&wire), "reverse": rev, "open": open, "distance_mile": dist, "license": lic_s}));
        }
    }
    ctx.extra("areas", json!(area_license.keys().collect::<Vec<_>>()));

    // ---- injectivity and exactness of the decodable set ------------------------------------
    // a value must decode iff it is the wire form of exactly one variant, and then to that variant
    let table = &wire_to_variant;
    let check_value = |b: [u8; 6], p: &mut Part, decodable: &mut Vec<[u8; 6]>| {
        p.evaluations += 1;
        let r = guarded(|| decode(&b));
        match r {
            Err(pn) => p.violation("C14/decode-panic", format!("decoding {} panicked: {pn}", hex(&b)), json!({"bytes": hex(&b)})),
            Ok(Ok(t)) => {
                decodable.push(b);
                match table.get(&b) {
                    Some(name) => {
                        let got = format!("{:?}", t);
                        if !got.eq_ignore_ascii_case(name) {
                            p.violation(
                                format!("C14/decodes-to-other/{name}"),
                                format!("{} is the wire form of Track::{name} but decodes to {got}", hex(&b)),
                                json!({"bytes": hex(&b)}),
                            );
                        }
                    },
                    None => p.violation(
                        format!("C14/extra-decodable/{:?}", t),
                        format!("{} is not the wire form of any configuration but decodes to {:?}", hex(&b), t),
                        json!({"bytes": hex(&b)}),
                    ),
                }
            },
            Ok(Err(_)) => {
                if let Some(name) = table.get(&b) {
                    p.violation(format!("C14/not-decodable/{name}"), format!("wire form {} of Track::{name} is rejected", hex(&b)), json!({"bytes": hex(&b)}));
                }
            },
        }
    };

    // (a) exhaustive shaped space [A-Z]{2}[0-9][0-9]?[A-Z]? NUL padded
    let results: Vec<(Part, Vec<[u8; 6]>)> = (b'A'..=b'Z')
        .into_par_iter()
        .map(|a| {
            let mut p = Part::new();
            let mut dec = vec![];
            for b in b'A'..=b'Z' {
                for d1 in b'0'..=b'9' {
                    for d2 in std::iter::once(0u8).chain(b'0'..=b'9') {
                        for l in std::iter::once(0u8).chain(b'A'..=b'Z') {
                            let mut v = vec![a, b, d1];
                            if d2 != 0 {
                                v.push(d2);
                            }
                            if l != 0 {
                                v.push(l);
                            }
                            let mut w = [0u8; 6];
                            w[..v.len()].copy_from_slice(&v);
                            check_value(w, &mut p, &mut dec);
                        }
                    }
                }
            }
            (p, dec)
        })
        .collect();
    let mut decodable: Vec<[u8; 6]> = vec![];
    let mut shaped = 0u64;
    for (p, d) in results {
        shaped += p.evaluations;
        ctx.merge(p);
        decodable.extend(d);
    }
    ctx.part.distinct_extra += shaped;
    ctx.extra("shaped_space_size", json!(shaped));

    // (b) every wire form with every byte value in every position (single-byte mutations: pad, case, neighbours)
    let mut p = Part::new();
    let mut dec2 = vec![];
    for w in wire_to_variant.keys() {
        for pos in 0..6 {
            for v in 0u16..=255 {
                let mut m = *w;
                if m[pos] == v as u8 {
                    continue;
                }
                m[pos] = v as u8;
                check_value(m, &mut p, &mut dec2);
                p.distinct(&m);
            }
        }
    }
    ctx.merge(p);

    // (c) random 6-byte values, and random values over a track-like alphabet
    let n = ctx.tier.pick(4_000_000u64, 100_000_000u64);
    let base = ctx.rng.fork(14);
    let parts: Vec<(Part, Vec<[u8; 6]>)> = (0u64..16)
        .into_par_iter()
        .map(|t| {
            let mut r = base.fork(t);
            let mut p = Part::new();
            let mut dec = vec![];
            let alpha = b"ABLSOFEUKYWRXY0123456789\0\0\0 blso";
            for i in 0..n / 16 {
                let mut w = [0u8; 6];
                if i % 2 == 0 {
                    let x = r.next_u64().to_le_bytes();
                    w.copy_from_slice(&x[..6]);
                } else {
                    for b in w.iter_mut() {
                        *b = *r.pick(alpha);
                    }
                }
                check_value(w, &mut p, &mut dec);
            }
            (p, dec)
        })
        .collect();
    for (p, d) in parts {
        ctx.part.distinct_extra += p.evaluations;
        ctx.merge(p);
        dec2.extend(d);
    }

    decodable.extend(dec2);
    decodable.sort();
    decodable.dedup();
    ctx.extra("decodable_values_observed", json!(decodable.len()));
    if decodable.len() != wire_to_variant.len() || wire_to_variant.len() != tracks.len() {
        ctx.violation(
            "C14/decodable-set-size",
            format!(
                "enum declares {} configurations, {} distinct wire forms, {} decodable values observed",
                tracks.len(),
                wire_to_variant.len(),
                decodable.len()
            ),
            json!({"declared": tracks.len(), "wire_forms": wire_to_variant.len(), "decodable": decodable.len()}),
        );
    }
    // ---- a code that is not at the start of the field, or padded with something else than NUL, is no configuration ---
    {
        let mut p = Part::new();
        for (name, t) in all_tracks() {
            let code = guarded(|| t.code().to_string()).unwrap_or_default();
            let cb = code.as_bytes();
            if cb.is_empty() || cb.len() > 6 {
                continue;
            }
            let canonical = wire_of(&code);
            let mut cands: Vec<[u8; 6]> = vec![];
            for shift in 1..=6 - cb.len() {
                for fill in [0u8, b' '] {
                    let mut w = [fill; 6];
                    w[shift..shift + cb.len()].copy_from_slice(cb);
                    // bytes behind the code stay NUL in one variant, take the fill in the other
                    cands.push(w);
                    let mut w2 = [0u8; 6];
                    for x in w2.iter_mut().take(shift) {
                        *x = fill;
                    }
                    w2[shift..shift + cb.len()].copy_from_slice(cb);
                    cands.push(w2);
                }
            }
            let mut sp = [b' '; 6];
            sp[..cb.len()].copy_from_slice(cb);
            cands.push(sp);
            let mut lower = [0u8; 6];
            lower[..cb.len()].copy_from_slice(code.to_ascii_lowercase().as_bytes());
            cands.push(lower);
            for w in cands {
                if Some(w) == canonical {
                    continue;
                }
                p.evaluations += 1;
                p.distinct(&w);
                if let Ok(Ok(back)) = guarded(|| decode(&w)) {
                    // only a violation if it is not the canonical wire form of the configuration it decodes to
                    let canon_of_back = guarded(|| encode(&back)).ok().and_then(|x| x.ok());
                    if canon_of_back.as_deref() != Some(&w[..]) {
                        p.violation(
                            format!("C14/extra-decodable/{name}"),
                            format!("{} (the code {code} shifted / padded / lower-cased) is not a wire form but decodes to {:?}", hex(&w), back),
                            json!({"variant": name, "value": hex(&w)}),
                        );
                    }
                }
            }
        }
        ctx.merge(p);
    }
    // ---- the same table inside the packets that carry a track (STA, RST, the relay host list): every configuration is
    //      recovered there, and six bytes that are no configuration make the packet an error there too --------------------
    if let Ok(c) = crate::corpus::Corpus::load() {
        use crate::{
            corpus::{real_decode, real_encode, Dec, Enc},
            refspec::{GenOpts, Kind, TextMode},
        };
        let mut p = Part::new();
        let mut r = ctx.rng.fork(1414);
        let mut sites: Vec<(String, usize, Vec<u8>)> = vec![];
        for lay in c.kinds() {
            for f in &lay.fields {
                if matches!(f.kind, Kind::Track) {
                    let o = GenOpts { text: TextMode::Ascii, max_list: Some(1), boundary: 4, hostile: false };
                    if let Some((_, frame)) = c.ref_frame(&mut r, lay, &o, true) {
                        sites.push((lay.name.clone(), f.off, frame));
                    }
                }
            }
        }
        // the relay host list holds the track inside a 40-byte record: 32 bytes of host name, then the track
        {
            let lay = c.spec.packet("HOS");
            let o = GenOpts { text: TextMode::Ascii, max_list: Some(1), boundary: 4, hostile: false };
            if let Some((_, frame)) = (0..50).find_map(|_| c.ref_frame(&mut r, lay, &o, true).filter(|(_, f)| f[3] == 1 && f.len() == 44)) {
                sites.push(("HOS".into(), 4 + 32, frame));
            }
        }
        ctx.extra("packets_carrying_a_track", json!(sites.iter().map(|s| format!("{}@{}", s.0, s.1)).collect::<Vec<_>>()));
        // configurations
        for (name, t) in all_tracks() {
            let Ok(wire) = encode(&t) else { continue };
            if wire.len() != 6 {
                continue;
            }
            for (kind, off, frame) in &sites {
                let mut f = frame.clone();
                f[*off..*off + 6].copy_from_slice(&wire);
                p.evaluations += 1;
                match real_decode(&f, true) {
                    Dec::Packet(pk, _) => {
                        let ok = format!("{:?}", pk).contains(&format!("{:?}", t)) && matches!(real_encode(&pk, true), Enc::Ok(b) if b[*off..*off + 6] == wire[..]);
                        if !ok {
                            p.violation(format!("C14/in-packet/{kind}/differs-from-standalone/{name}"), format!("{kind}: the wire form of Track::{name} decodes to {}", format!("{:?}", pk).chars().take(200).collect::<String>()), json!({"kind": kind, "variant": name, "frame": hex(&f)}));
                        }
                    },
                    other => p.violation(format!("C14/in-packet/{kind}/configuration-rejected/{name}"), format!("{kind}: a packet holding Track::{name} is rejected: {}", format!("{:?}", other).chars().take(160).collect::<String>()), json!({"kind": kind, "variant": name, "frame": hex(&f)})),
                }
            }
        }
        // values that are no configuration: single-byte mutations of wire forms and shaped non-codes
        let mut bad: Vec<[u8; 6]> = vec![];
        for (_, t) in all_tracks().into_iter().step_by(5) {
            if let Ok(w) = encode(&t) {
                if w.len() == 6 {
                    for pos in 0..6 {
                        for v in [0u8, b'0', b'9', b'A', b'Z', b'x', 1, 0xff] {
                            let mut m = [0u8; 6];
                            m.copy_from_slice(&w);
                            if m[pos] != v {
                                m[pos] = v;
                                bad.push(m);
                            }
                        }
                    }
                }
            }
        }
        for m in bad {
            if decode(&m).is_ok() {
                continue; // still a configuration (another one)
            }
            for (kind, off, frame) in &sites {
                let mut f = frame.clone();
                f[*off..*off + 6].copy_from_slice(&m);
                p.evaluations += 1;
                p.distinct(&(kind, m));
                if let Dec::Packet(pk, _) = real_decode(&f, true) {
                    p.violation(
                        format!("C14/in-packet/{kind}/non-configuration-accepted"),
                        format!("{kind}: {} is the wire form of no configuration, yet the packet decodes: {}", hex(&m), format!("{:?}", pk).chars().take(200).collect::<String>()),
                        json!({"kind": kind, "value": hex(&m), "frame": hex(&f)}),
                    );
                }
            }
        }
        ctx.merge(p);
    }
    ctx.assume("variant list parsed from `pub enum Track` in /repo/insim_core/src/track.rs by the harness build script");
    (
        "exploration",
        "every enum variant (table coherence) + exhaustive shaped space [A-Z]{2}[0-9][0-9]?[A-Z]? NUL-padded + every single-byte mutation of every wire form + random 6-byte values; distinct = distinct 6-byte values / variants".into(),
        true,
    )
}
