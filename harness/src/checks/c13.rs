//! C13 — Vehicle identifiers map one-to-one onto their 4 wire bytes.

use std::io::Cursor;

use insim_core::{
    binrw::{BinRead, BinWrite},
    vehicle::Vehicle,
};
use rayon::prelude::*;
use serde_json::json;

use crate::ctx::{guarded, hex, Ctx, Part, Tier};

#[derive(Clone, Copy, PartialEq, Eq, Debug)]
enum Shape {
    Unknown,
    Builtin,
    Mod,
}

/// Independent statement of the InSim v9 rule.
fn classify(b: [u8; 4]) -> Shape {
    if b == [0, 0, 0, 0] {
        Shape::Unknown
    } else if b[3] == 0 && b[..3].iter().all(|c| c.is_ascii_digit() || c.is_ascii_uppercase() || c.is_ascii_lowercase()) {
        Shape::Builtin
    } else {
        Shape::Mod
    }
}

fn decode(b: [u8; 4]) -> Result<Vehicle, String> {
    Vehicle::read_le(&mut Cursor::new(&b[..])).map_err(|e| e.to_string())
}

fn encode(v: &Vehicle) -> Result<Vec<u8>, String> {
    let mut c = Cursor::new(Vec::with_capacity(4));
    v.write_le(&mut c).map_err(|e| e.to_string())?;
    Ok(c.into_inner())
}

/// Check one value. Returns Some(name) if a built-in was accepted.
fn check_one(b: [u8; 4], p: &mut Part) -> Option<[u8; 3]> {
    p.evaluations += 1;
    let shape = classify(b);
    let r = match guarded(|| decode(b)) {
        Ok(r) => r,
        Err(pn) => {
            p.violation("C13/decode-panic", format!("decoding {} panicked: {}", hex(&b), pn), json!({"bytes": hex(&b)}));
            return None;
        },
    };
    // the same four bytes from a stream that hands them over in pieces (BinRead is public and generic over the stream)
    {
        let max = 1 + (b[0] as usize + b[3] as usize) % 3;
        let mut rd = crate::ioadapt::ChunkReader::new(&b, max);
        let pieces = guarded(|| Vehicle::read_le(&mut rd).map_err(|e| e.to_string()));
        let same = match (&pieces, &r) {
            (Ok(Ok(x)), Ok(y)) => x == y,
            (Ok(Err(_)), Err(_)) => true,
            _ => false,
        };
        if !same {
            p.violation(
                "C13/chunked-reader-differs",
                format!("{} decodes to {:?} from a slice but to {:?} from a reader that returns {max} byte(s) per call", hex(&b), r, pieces),
                json!({"bytes": hex(&b), "bytes_per_read": max}),
            );
        }
    }
    let mut accepted = None;
    match (shape, &r) {
        (Shape::Unknown, Ok(Vehicle::Unknown)) => {},
        (Shape::Unknown, other) => p.violation(
            "C13/all-zero-not-unknown",
            format!("00000000 decoded to {:?}", other),
            json!({"bytes": hex(&b)}),
        ),
        (Shape::Mod, Ok(Vehicle::Mod(id))) if *id == u32::from_le_bytes(b) => {},
        (Shape::Mod, other) => p.violation(
            "C13/mod-shape-not-mod",
            format!("{} is not built-in shaped and must be Mod({:#x}); got {:?}", hex(&b), u32::from_le_bytes(b), other),
            json!({"bytes": hex(&b)}),
        ),
        (Shape::Builtin, Err(_)) => {},
        (Shape::Builtin, Ok(v)) => {
            let name = String::from_utf8_lossy(&b[..3]).to_string();
            if v.is_mod() || matches!(v, Vehicle::Unknown) {
                p.violation(
                    "C13/builtin-shape-decoded-as-mod-or-unknown",
                    format!("built-in style name {:?} decoded to {:?}", name, v),
                    json!({"bytes": hex(&b)}),
                );
            } else if v.to_string() != name || format!("{:#}", v) != name || format!("{:>3}", v) != name {
                p.violation(
                    "C13/builtin-name-mismatch",
                    format!("wire name {:?} decoded to a car printing as {:?} / {:?} (alternate) / {:?} (width 3)", name, v.to_string(), format!("{:#}", v), format!("{:>3}", v)),
                    json!({"bytes": hex(&b)}),
                );
            } else {
                accepted = Some([b[0], b[1], b[2]]);
            }
        },
    }
    if let (Shape::Mod, Ok(v)) = (shape, &r) {
        // mods and built-ins are never confused in print either: whatever width, alignment or flag the caller formats
        // with, a mod never prints as a built-in car's name (mod ids are hexadecimal: 0xBF1 spells one)
        let id = u32::from_le_bytes(b);
        if id < 0x1000 || b[0] % 64 == 0 {
            let forms = [format!("{}", v), format!("{:3}", v), format!("{:>3}", v), format!("{:<3}", v), format!("{:1}", v), format!("{:0}", v), format!("{:#}", v), format!("{:03}", v), format!("{:.3}", v)];
            for (k, f) in forms.iter().enumerate() {
                let t = f.trim();
                if crate::refspec::BUILTIN_CARS.iter().any(|n| n.eq_ignore_ascii_case(t)) {
                    p.violation(
                        "C13/mod-prints-as-builtin",
                        format!("Mod({:#x}) (wire {}) prints as {:?} under format form #{k} ({{}}, {{:3}}, {{:>3}}, {{:<3}}, {{:1}}, {{:0}}, {{:#}}, {{:03}}, {{:.3}}): a built-in car's name", id, hex(&b), f),
                        json!({"bytes": hex(&b), "form": k}),
                    );
                }
            }
        }
    }
    if let Ok(v) = &r {
        // the classification helpers must agree with the wire shape: a mod is a mod, everything else is not
        if v.is_mod() != (shape == Shape::Mod) || v.is_builtin() == v.is_mod() {
            p.violation(
                "C13/is-mod-is-builtin-disagree-with-shape",
                format!("{} ({:?}-shaped) decoded to {:?} with is_mod()={} is_builtin()={}", hex(&b), shape, v, v.is_mod(), v.is_builtin()),
                json!({"bytes": hex(&b)}),
            );
        }
        {
            let mut sink = crate::ioadapt::ShortSink::new(1 + b[1] as usize % 3);
            match guarded(|| v.write_le(&mut sink).map_err(|e| e.to_string())) {
                Ok(Ok(())) if sink.inner.get_ref()[..] == b => {},
                other => p.violation(
                    "C13/short-writer-differs",
                    format!("{:?} (decoded from {}) written into a writer that takes a few bytes per call gives {} ({:?})", v, hex(&b), hex(sink.inner.get_ref()), other),
                    json!({"bytes": hex(&b)}),
                ),
            }
        }
        match guarded(|| encode(v)) {
            Ok(Ok(w)) if w == b => {},
            other => p.violation(
                "C13/reencode-differs",
                format!("{} decoded to {:?} which re-encodes to {:?}", hex(&b), v, other.map(|x| x.map(|w| hex(&w)))),
                json!({"bytes": hex(&b)}),
            ),
        }
    }
    accepted
}

pub fn run(ctx: &mut Ctx) -> (&'static str, String, bool) {
    let exhaustive = ctx.tier == Tier::Thorough;
    let mut accepted: Vec<[u8; 3]> = vec![];

    if exhaustive {
        // all 2^32 values, 65536 chunks of 65536
        let parts: Vec<(Part, Vec<[u8; 3]>)> = (0u32..65536)
            .into_par_iter()
            .map(|hi| {
                let mut p = Part::new();
                let mut acc = vec![];
                for lo in 0u32..65536 {
                    let v = (hi << 16) | lo;
                    if let Some(a) = check_one(v.to_le_bytes(), &mut p) {
                        acc.push(a);
                    }
                }
                (p, acc)
            })
            .collect();
        for (p, a) in parts {
            ctx.merge(p);
            accepted.extend(a);
        }
        ctx.part.distinct_extra += 1u64 << 32;
    } else {
        // all 2^24 values with a NUL 4th byte (this contains every built-in-shaped value and the all-zero value)
        let parts: Vec<(Part, Vec<[u8; 3]>)> = (0u32..256)
            .into_par_iter()
            .map(|hi| {
                let mut p = Part::new();
                let mut acc = vec![];
                for lo in 0u32..65536 {
                    let v = (hi << 16) | lo;
                    if let Some(a) = check_one(v.to_le_bytes(), &mut p) {
                        acc.push(a);
                    }
                }
                (p, acc)
            })
            .collect();
        for (p, a) in parts {
            ctx.merge(p);
            accepted.extend(a);
        }
        ctx.part.distinct_extra += 1u64 << 24;
        // all 2^24 values with a NUL in each of the other three positions (leading / embedded NULs must stay mods)
        for zero_pos in 0..3usize {
            let parts: Vec<Part> = (0u32..256)
                .into_par_iter()
                .map(|hi| {
                    let mut p = Part::new();
                    for lo in 0u32..65536 {
                        let v = (hi << 16) | lo;
                        let t = v.to_le_bytes(); // three free bytes in t[0..3]
                        let mut b = [0u8; 4];
                        let mut k = 0;
                        for (i, slot) in b.iter_mut().enumerate() {
                            if i != zero_pos {
                                *slot = t[k];
                                k += 1;
                            }
                        }
                        let _ = check_one(b, &mut p);
                    }
                    p
                })
                .collect();
            for p in parts {
                ctx.merge(p);
            }
            ctx.part.distinct_extra += 1u64 << 24;
        }
        // every alphanumeric triple followed by every non-zero 4th byte (must all be mods)
        let alnum: Vec<u8> = (0u8..=255).filter(|c| c.is_ascii_alphanumeric()).collect();
        let parts: Vec<Part> = alnum
            .par_iter()
            .map(|&a| {
                let mut p = Part::new();
                for &b in &alnum {
                    for &c in &alnum {
                        for d in 1u8..=255 {
                            let _ = check_one([a, b, c, d], &mut p);
                        }
                    }
                }
                p
            })
            .collect();
        for p in parts {
            ctx.merge(p);
        }
        ctx.part.distinct_extra += (alnum.len() as u64).pow(3) * 255;
        // random values
        let n = 20_000_000u64;
        let base = ctx.rng.fork(13);
        let parts: Vec<Part> = (0u64..16)
            .into_par_iter()
            .map(|t| {
                let mut r = base.fork(t);
                let mut p = Part::new();
                for _ in 0..n / 16 {
                    let _ = check_one(r.next_u32().to_le_bytes(), &mut p);
                }
                p
            })
            .collect();
        for p in parts {
            ctx.merge(p);
        }
        ctx.part.distinct_extra += n; // random 32-bit draws: collisions with the enumerated part are negligible and not counted
    }

    // ---- vehicle values reachable by decoding a packet: IS_MAL carries bare mod ids, whatever their bytes spell ----
    {
        use crate::corpus::{real_decode, real_encode, Dec, Enc};
        let mut p = Part::new();
        let mut r = ctx.rng.fork(1313);
        let names: Vec<[u8; 3]> = accepted.iter().copied().collect();
        for round in 0..40 {
            let mut ids: Vec<[u8; 4]> = vec![];
            // every built-in name as a mod id (split over rounds), alphanumeric triples, ordinary ids
            for (k, n) in names.iter().enumerate() {
                if k % 4 == round % 4 {
                    ids.push([n[0], n[1], n[2], 0]);
                }
            }
            for _ in 0..6 {
                let t: Vec<u8> = (0..3).map(|_| *r.pick(b"0123456789ABCDEFXYZabcxyz")).collect();
                ids.push([t[0], t[1], t[2], 0]);
                ids.push(r.next_u32().to_le_bytes());
            }
            ids.sort();
            ids.dedup();
            ids.retain(|b| *b != [0, 0, 0, 0]);
            let n = ids.len();
            let mut f = vec![((8 + 4 * n) / 4) as u8, 65, 1, n as u8, 0, 0, 0, 0];
            for b in &ids {
                f.extend_from_slice(b);
            }
            p.evaluations += 1;
            p.distinct(&f);
            let replay = json!({"frame": hex(&f)});
            match real_decode(&f, true) {
                Dec::Packet(pk, _) => {
                    let dbg = format!("{:?}", pk);
                    // a mod never prints as a car: not as one of the accepted built-in names, not as "Unknown"
                    if let insim::Packet::Mal(m) = &pk {
                        for v in m.iter() {
                            let shown = v.to_string();
                            if !v.is_mod() || names.iter().any(|n| shown.as_bytes() == &n[..]) || shown.eq_ignore_ascii_case("unknown") {
                                p.violation(
                                    "C13/mal/mod-prints-as-a-car",
                                    format!("a mod id from IS_MAL is shown as {:?} (Debug {:?}, is_mod {})", shown, v, v.is_mod()),
                                    replay.clone(),
                                );
                                break;
                            }
                        }
                    }
                    let mods = dbg.to_uppercase().matches("MOD(").count(); // Vehicle's Debug prints MOD(hex id)
                    if mods != n {
                        p.violation(
                            "C13/mal/mod-id-not-a-mod",
                            format!("an IS_MAL frame with {n} mod ids (some spelling car names) decodes to {mods} mods: {}", dbg.chars().take(300).collect::<String>()),
                            replay.clone(),
                        );
                    }
                    match real_encode(&pk, true) {
                        Enc::Ok(back) => {
                            // the set may be re-ordered; the ids must all be there
                            let mut got: Vec<[u8; 4]> = back[8..].chunks(4).map(|c| [c[0], c[1], c[2], c[3]]).collect();
                            got.sort();
                            if got != ids {
                                p.violation("C13/mal/reencode-differs", format!("IS_MAL with {n} ids re-encodes to {} ids / different ids", got.len()), replay);
                            }
                        },
                        other => p.violation("C13/mal/reencode-failed", format!("decoded IS_MAL cannot be re-encoded: {:?}", matches!(other, Enc::Err(_))), replay),
                    }
                },
                other => p.violation("C13/mal/rejected", format!("an IS_MAL frame whose mod ids spell car names is rejected: {}", format!("{:?}", other).chars().take(200).collect::<String>()), replay),
            }
        }
        ctx.merge(p);
    }
    // ---- the same rule inside every packet that carries a car name (NPL, RES, SLC ...): what the field decodes to in a
    //      packet must be what the identifier decodes to on its own, and an error there is an error here --------------
    if let Ok(c) = crate::corpus::Corpus::load() {
        use crate::{
            corpus::{real_decode, real_encode, Dec, Enc},
            refspec::{GenOpts, Kind, TextMode},
        };
        let mut sites: Vec<(String, usize, Vec<u8>)> = vec![];
        let mut r = ctx.rng.fork(1314);
        for lay in c.kinds() {
            for f in &lay.fields {
                if matches!(f.kind, Kind::Vehicle) {
                    let o = GenOpts { text: TextMode::Ascii, max_list: Some(1), boundary: 4, hostile: false };
                    if let Some((_, frame)) = c.ref_frame(&mut r, lay, &o, true) {
                        sites.push((lay.name.clone(), f.off, frame));
                    }
                }
            }
        }
        ctx.extra("packets_carrying_a_vehicle", json!(sites.iter().map(|s| format!("{}@{}", s.0, s.1)).collect::<Vec<_>>()));
        let alnum: Vec<u8> = (0u8..=255).filter(|c| c.is_ascii_alphanumeric()).collect();
        let stride = if exhaustive { 1 } else { 7 };
        let sites_ref = &sites;
        let alnum_ref = &alnum;
        let parts: Vec<Part> = alnum
            .par_iter()
            .map(|&a| {
                let mut p = Part::new();
                let mut k = 0usize;
                for &b in alnum_ref {
                    for &cc in alnum_ref {
                        k += 1;
                        let id = [a, b, cc, 0];
                        let direct = decode(id);
                        // every recognised name, and a stride of the unrecognised ones
                        if direct.is_err() && k % stride != 0 {
                            continue;
                        }
                        for (kind, off, frame) in sites_ref {
                            let mut f = frame.clone();
                            f[*off..*off + 4].copy_from_slice(&id);
                            p.evaluations += 1;
                            let got = real_decode(&f, true);
                            let replay = json!({"kind": kind, "offset": off, "identifier": hex(&id), "frame": hex(&f)});
                            match (&direct, got) {
                                (Err(_), Dec::Err(..)) => {},
                                (Err(_), Dec::Panic(pn)) => p.violation(format!("C13/in-packet/{kind}/panic"), format!("{kind}: decoding with identifier {} panicked: {pn}", hex(&id)), replay),
                                (Err(_), Dec::NeedMore) => {},
                                (Err(_), Dec::Packet(pk, _)) => p.violation(
                                    format!("C13/in-packet/{kind}/unrecognised-name-accepted"),
                                    format!("{kind}: the built-in-style name {:?} is no car, yet the packet decodes: {}", String::from_utf8_lossy(&id[..3]), format!("{:?}", pk).chars().take(160).collect::<String>()),
                                    replay,
                                ),
                                (Ok(v), Dec::Packet(pk, _)) => {
                                    let dbg = format!("{:?}", pk);
                                    let back = real_encode(&pk, true);
                                    if !dbg.contains(&format!("{:?}", v)) || !matches!(&back, Enc::Ok(b) if b[*off..*off + 4] == id) {
                                        p.violation(
                                            format!("C13/in-packet/{kind}/differs-from-standalone"),
                                            format!("{kind}: identifier {} decodes to {:?} on its own but the packet holds {}", hex(&id), v, dbg.chars().take(160).collect::<String>()),
                                            replay,
                                        );
                                    }
                                },
                                (Ok(v), other) => p.violation(
                                    format!("C13/in-packet/{kind}/recognised-name-rejected"),
                                    format!("{kind}: identifier {} is {:?} on its own but the packet is rejected: {}", hex(&id), v, format!("{:?}", other).chars().take(160).collect::<String>()),
                                    replay,
                                ),
                            }
                        }
                    }
                }
                p
            })
            .collect();
        for p in parts {
            ctx.merge(p);
        }
    }
    accepted.sort();
    accepted.dedup();
    let names: Vec<String> = accepted.iter().map(|a| String::from_utf8_lossy(a).to_string()).collect();
    ctx.extra("accepted_builtin_names", json!(names));
    if accepted.len() != 20 {
        ctx.violation(
            "C13/builtin-set-size",
            format!("expected exactly 20 accepted built-in names, observed {}: {:?}", accepted.len(), names),
            json!({"accepted": names}),
        );
    }
    // every accepted built-in decodes to a pairwise distinct value
    let mut vals: Vec<String> = vec![];
    for a in &accepted {
        if let Ok(v) = decode([a[0], a[1], a[2], 0]) {
            vals.push(format!("{:?}", v));
        }
    }
    vals.sort();
    let before = vals.len();
    vals.dedup();
    if vals.len() != before {
        ctx.violation("C13/builtins-not-distinct", "two built-in names decode to the same vehicle", json!({"values": vals}));
    }
    for b in [[0u8, 0, 0, 0], *b"XFG\0", *b"XFG1", [1, 0, 0, 0], *b"ZZZ\0", *b"xfg\0", [0x4d, 0xc5, 0x03, 0x00]] {
        ctx.sample(json!({"bytes": hex(&b), "shape": format!("{:?}", classify(b)), "decoded": format!("{:?}", guarded(|| decode(b).map_err(|_| "Err")))}));
    }
    ctx.assume("the InSim v9 rule as stated in the property: 3 ASCII alphanumerics + NUL = built-in shape; all zero = unknown; else mod id = little-endian u32");
    (
        "exploration",
        if exhaustive {
            "all 2^32 four-byte values enumerated; each is a distinct case; non-trivial = every value (each exercises classify/decode/re-encode)".into()
        } else {
            "all 2^24 values with NUL 4th byte (contains all built-in shapes) + all 2^24 values with a NUL in each other position + all alnum triples x non-zero 4th byte + 2e7 random values; distinct = enumerated values (random draws counted once each)".into()
        },
        exhaustive,
    )
}
