//! C19, real adaptors: the read raced against a ticker in a `select!` loop (as examples/strobe does) over
//! loopback TCP, the tokio UDP adaptor and the WebSocket adaptor. The oracle is the uninterrupted session:
//! the same packets in the same order, one whole reply per keep-alive on the outgoing side.

use std::{
    net::UdpSocket,
    sync::{
        atomic::{AtomicUsize, Ordering},
        Arc,
    },
    time::{Duration, Instant},
};

use futures_util::{SinkExt, StreamExt};
use insim::net::{tokio_impl, Codec};
use serde_json::json;
use tokio::{
    io::{AsyncReadExt, AsyncWriteExt},
    net::TcpListener,
};
use tokio_tungstenite::tungstenite::Message;

use crate::{
    corpus::{mode_name, Corpus},
    ctx::{hex, Part},
    refspec::{limit, GenOpts, TextMode},
    rng::Rng,
    sess::{expected_results, short},
    transport::{classify, mode_of, ReadResult},
};

#[derive(Clone, Copy, Debug, PartialEq)]
pub enum Tr {
    Tcp,
    Udp,
    Ws,
}

const STALL: Duration = Duration::from_secs(4);
const WATCHDOG: Duration = Duration::from_secs(60);

fn ka(compressed: bool) -> Vec<u8> {
    if compressed {
        vec![1, 3, 0, 0]
    } else {
        vec![4, 3, 0, 0]
    }
}

/// What the peer saw on the outgoing side: for TCP one byte string, else one entry per datagram / binary message.
type Outgoing = Vec<Vec<u8>>;

/// `strobe`: 0 = ticker fires after one yield (the read is polled twice at most before it is dropped),
/// 1 = random 1..400 us ticker, 2 = mixture, 3 = `tokio::time::timeout` around the read, 4 = polled once and
/// dropped if pending.
/// `burst`: several hundred small frames handed to the transport in one piece, so that one poll of the task serves
/// hundreds of reads from the buffer (tokio's cooperative budget is 128 operations per task poll).
pub fn real_session(c: &Corpus, r: &mut Rng, tr: Tr, compressed: bool, strobe: u64, burst: bool, p: &mut Part) -> Result<(), String> {
    let rt = tokio::runtime::Builder::new_current_thread().enable_all().build().map_err(|e| e.to_string())?;
    // frames: valid packets of every kind with keep-alives in between
    let nframes = if burst { 300 + r.usize_below(300) } else { 10 + r.usize_below(70) };
    let mut frames: Vec<Vec<u8>> = vec![];
    for k in 0..nframes {
        if burst {
            // TINY pings with distinct request ids, a keep-alive now and then
            frames.push(if k % 97 == 50 { ka(compressed) } else { vec![if compressed { 1 } else { 4 }, 3, 1 + (k % 250) as u8, 3] });
            continue;
        }
        if r.chance(1, 4) {
            frames.push(ka(compressed));
            continue;
        }
        let lay = r.pick(c.kinds());
        let o = GenOpts { text: TextMode::Ascii, max_list: Some(if r.chance(1, 6) { 40 } else { 4 }), boundary: 4, hostile: false };
        if let Some((_, f)) = c.ref_frame(r, lay, &o, compressed) {
            if f.len() <= limit(compressed) {
                frames.push(f);
            }
        }
    }
    let stream: Vec<u8> = frames.concat();
    let (expected, _) = expected_results(&stream, compressed);
    let n_ka = frames.iter().filter(|f| **f == ka(compressed)).count();
    // units handed to the transport: datagrams hold whole frames; stream transports are cut anywhere
    let mut units: Vec<Vec<u8>> = vec![];
    match tr {
        Tr::Udp => {
            let mut i = 0;
            while i < frames.len() {
                let mut d = frames[i].clone();
                i += 1;
                let more = r.usize_below(3);
                for _ in 0..more {
                    if i < frames.len() && d.len() + frames[i].len() <= 1020 {
                        d.extend_from_slice(&frames[i]);
                        i += 1;
                    }
                }
                units.push(d);
            }
        },
        _ if burst => units.push(stream.clone()),
        _ => {
            let mut pos = 0;
            while pos < stream.len() {
                let cap = if r.chance(1, 3) { 6 } else { 300 };
                let k = (1 + r.usize_below(cap)).min(stream.len() - pos);
                units.push(stream[pos..pos + k].to_vec());
                pos += k;
            }
        },
    }
    let pace = if burst { 0 } else { [0u64, 50, 400][r.usize_below(3)] };
    let label = format!("real-{:?}-{}-strobe{strobe}-pace{pace}{}", tr, mode_name(compressed), if burst { "-burst" } else { "" });
    let delivered = Arc::new(AtomicUsize::new(0));
    let sender_done = Arc::new(AtomicUsize::new(0));
    let tick_seed = r.next_u64();

    struct Out {
        results: Vec<ReadResult>,
        end: Option<ReadResult>,
        drops: usize,
        outgoing: Outgoing,
        lost: Option<String>,
    }

    let outcome: Result<Out, String> = rt.block_on(async {
        let mut tick = Rng::new(tick_seed);
        let n_expected = expected.len();
        // ---- peer ---------------------------------------------------------------------------------------
        let (mut framed, server, observer): (tokio_impl::Framed, tokio::task::JoinHandle<Outgoing>, Option<UdpSocket>) = match tr {
            Tr::Tcp => {
                let listener = TcpListener::bind("127.0.0.1:0").await.map_err(|e| e.to_string())?;
                let addr = listener.local_addr().map_err(|e| e.to_string())?;
                let units = units.clone();
                let done = sender_done.clone();
                let server = tokio::spawn(async move {
                    let Ok((mut tcp, _)) = listener.accept().await else { return vec![] };
                    for (i, u) in units.iter().enumerate() {
                        if tcp.write_all(u).await.is_err() {
                            return vec![];
                        }
                        if pace > 0 {
                            tokio::time::sleep(Duration::from_micros((i as u64 * 7919) % pace)).await;
                        } else if i % 3 == 0 {
                            tokio::task::yield_now().await;
                        }
                    }
                    done.store(1, Ordering::SeqCst);
                    // collect the replies, then close; whatever else arrives until the client goes away is kept too
                    let mut got = vec![];
                    let mut b = [0u8; 4096];
                    while got.len() < 4 * n_ka {
                        match tokio::time::timeout(Duration::from_secs(10), tcp.read(&mut b)).await {
                            Ok(Ok(n)) if n > 0 => got.extend_from_slice(&b[..n]),
                            _ => break,
                        }
                    }
                    let _ = tcp.shutdown().await;
                    while let Ok(Ok(n)) = tokio::time::timeout(Duration::from_secs(5), tcp.read(&mut b)).await {
                        if n == 0 {
                            break;
                        }
                        got.extend_from_slice(&b[..n]);
                    }
                    vec![got]
                });
                let s = tokio::time::timeout(WATCHDOG, tokio::net::TcpStream::connect(addr)).await.map_err(|_| "connect watchdog".to_string())?.map_err(|e| e.to_string())?;
                (tokio_impl::Framed::new(Box::new(s), Codec::new(mode_of(compressed))), server, None)
            },
            Tr::Ws => {
                let listener = TcpListener::bind("127.0.0.1:0").await.map_err(|e| e.to_string())?;
                let addr = listener.local_addr().map_err(|e| e.to_string())?;
                let units = units.clone();
                let done = sender_done.clone();
                let server = tokio::spawn(async move {
                    let Ok((tcp, _)) = listener.accept().await else { return vec![] };
                    let Ok(mut ws) = tokio_tungstenite::accept_async(tcp).await else { return vec![] };
                    for (i, u) in units.iter().enumerate() {
                        if i % 9 == 4 {
                            let _ = ws.send(Message::Ping(vec![7])).await;
                        }
                        if ws.send(Message::Binary(u.clone())).await.is_err() {
                            return vec![];
                        }
                        if pace > 0 {
                            tokio::time::sleep(Duration::from_micros((i as u64 * 7919) % pace)).await;
                        } else if i % 3 == 0 {
                            tokio::task::yield_now().await;
                        }
                    }
                    done.store(1, Ordering::SeqCst);
                    let mut got = vec![];
                    while got.len() < n_ka {
                        match tokio::time::timeout(Duration::from_secs(10), ws.next()).await {
                            Ok(Some(Ok(Message::Binary(b)))) => got.push(b),
                            Ok(Some(Ok(_))) => {},
                            _ => break,
                        }
                    }
                    let _ = ws.close(None).await;
                    let _ = tokio::time::timeout(Duration::from_secs(5), async {
                        while let Some(Ok(m)) = ws.next().await {
                            if let Message::Binary(b) = m {
                                got.push(b);
                            }
                        }
                    })
                    .await;
                    got
                });
                let (ws, _) = tokio::time::timeout(WATCHDOG, tokio_tungstenite::connect_async(format!("ws://{addr}/connect"))).await.map_err(|_| "connect watchdog".to_string())?.map_err(|e| e.to_string())?;
                (tokio_impl::Framed::new(Box::new(tokio_impl::WebsocketStream::from(ws)), Codec::new(mode_of(compressed))), server, None)
            },
            Tr::Udp => {
                let peer = UdpSocket::bind("127.0.0.1:0").map_err(|e| e.to_string())?;
                let conn = UdpSocket::bind("127.0.0.1:0").map_err(|e| e.to_string())?;
                conn.connect(peer.local_addr().map_err(|e| e.to_string())?).map_err(|e| e.to_string())?;
                peer.connect(conn.local_addr().map_err(|e| e.to_string())?).map_err(|e| e.to_string())?;
                let observer = conn.try_clone().map_err(|e| e.to_string())?;
                conn.set_nonblocking(true).map_err(|e| e.to_string())?;
                peer.set_nonblocking(true).map_err(|e| e.to_string())?;
                let peer = tokio::net::UdpSocket::from_std(peer).map_err(|e| e.to_string())?;
                let conn = tokio::net::UdpSocket::from_std(conn).map_err(|e| e.to_string())?;
                let units = units.clone();
                let done = sender_done.clone();
                let delivered = delivered.clone();
                let per_unit: Vec<usize> = units.iter().map(|u| crate::transport::ref_frames(u, compressed).0.len()).collect();
                let server = tokio::spawn(async move {
                    let mut sent_frames = 0usize;
                    for (i, u) in units.iter().enumerate() {
                        // flow control: never more than a few datagrams in the kernel queue (loopback loss is not under test)
                        let t0 = Instant::now();
                        while sent_frames > delivered.load(Ordering::SeqCst) + 6 && t0.elapsed() < Duration::from_secs(20) {
                            tokio::time::sleep(Duration::from_micros(100)).await;
                        }
                        if peer.send(u).await.is_err() {
                            break;
                        }
                        sent_frames += per_unit[i];
                        if pace > 0 {
                            tokio::time::sleep(Duration::from_micros((i as u64 * 7919) % pace)).await;
                        } else if i % 3 == 0 {
                            tokio::task::yield_now().await;
                        }
                    }
                    done.store(1, Ordering::SeqCst);
                    let mut got = vec![];
                    let mut b = [0u8; 2048];
                    loop {
                        let wait = if got.len() < n_ka { Duration::from_secs(10) } else { Duration::from_millis(300) };
                        match tokio::time::timeout(wait, peer.recv(&mut b)).await {
                            Ok(Ok(n)) => got.push(b[..n].to_vec()),
                            _ => break,
                        }
                    }
                    got
                });
                (tokio_impl::Framed::new(Box::new(tokio_impl::UdpStream::from(conn)), Codec::new(mode_of(compressed))), server, Some(observer))
            },
        };
        // ---- client: read raced against a ticker ----------------------------------------------------------
        let mut out = Out { results: vec![], end: None, drops: 0, outgoing: vec![], lost: None };
        let mut last_progress = Instant::now();
        let start = Instant::now();
        loop {
            let want_more = out.results.len() < n_expected || tr != Tr::Udp;
            if !want_more {
                break;
            }
            if start.elapsed() > WATCHDOG {
                return Err(format!("session watchdog after {} of {n_expected} results", out.results.len()));
            }
            if last_progress.elapsed() > STALL {
                // nothing for a long time although the read was polled continuously
                let queue_empty = match &observer {
                    Some(o) => {
                        let mut b = [0u8; 1];
                        o.peek(&mut b).is_err()
                    },
                    None => true,
                };
                if sender_done.load(Ordering::SeqCst) == 1 && queue_empty {
                    out.lost = Some(format!("the peer sent everything, nothing is queued, yet only {} of {n_expected} results were returned after {} dropped reads", out.results.len(), out.drops));
                    break;
                }
                return Err(format!("stalled after {} of {n_expected} results (sender done: {})", out.results.len(), sender_done.load(Ordering::SeqCst)));
            }
            let mode = if strobe == 2 { [0, 1, 4][tick.usize_below(3)] } else { strobe };
            let got = {
                let fut = framed.read();
                tokio::pin!(fut);
                match mode {
                    0 => tokio::select! { biased; x = &mut fut => Some(x), _ = tokio::task::yield_now() => None },
                    1 => {
                        let us = 1 + tick.below(400);
                        tokio::select! { biased; x = &mut fut => Some(x), _ = tokio::time::sleep(Duration::from_micros(us)) => None }
                    },
                    3 => tokio::time::timeout(Duration::from_micros(1 + tick.below(400)), &mut fut).await.ok(),
                    _ => {
                        // polled exactly once and dropped if it is not ready (`now_or_never`, a zero timeout): every
                        // suspension point of the read, also one that only exists while the task's cooperative
                        // budget is used up, becomes a cancellation point
                        use futures_util::FutureExt;
                        let x = (&mut fut).now_or_never();
                        if x.is_none() {
                            tokio::task::yield_now().await;
                        }
                        x
                    },
                }
            };
            match got {
                None => out.drops += 1,
                Some(x) => {
                    last_progress = Instant::now();
                    let x = classify(x);
                    if matches!(x, ReadResult::Disconnected | ReadResult::Io(_) | ReadResult::Other(_)) {
                        out.end = Some(x);
                        break;
                    }
                    out.results.push(x);
                    delivered.store(out.results.len(), Ordering::SeqCst);
                    if out.results.len() > n_expected + 4 {
                        break;
                    }
                },
            }
        }
        drop(framed);
        out.outgoing = tokio::time::timeout(WATCHDOG, server).await.map_err(|_| "server watchdog".to_string())?.map_err(|e| e.to_string())?;
        Ok(out)
    });
    let o = outcome.map_err(|e| format!("{label}: {e}"))?;
    p.evaluations += 1;
    p.distinct(&(label.clone(), &stream));
    p.count(&format!("real_{:?}_drops", tr).to_lowercase(), o.drops as u64);
    p.count(&format!("real_{:?}_sessions", tr).to_lowercase(), 1);
    let trn = format!("{:?}", tr).to_lowercase();
    let replay = json!({"label": label, "transport": trn, "mode": mode_name(compressed), "strobe": strobe, "frames": frames.len(), "units": units.len(), "drops": o.drops, "stream_head": hex(&stream[..stream.len().min(256)])});
    if let Some(l) = &o.lost {
        p.violation(format!("C19/real-{trn}/packets-missing"), format!("{label}: {l}"), replay.clone());
    } else if o.results != expected {
        let at = o.results.iter().zip(expected.iter()).position(|(a, b)| a != b).unwrap_or(o.results.len().min(expected.len()));
        let what = if o.results.len() < expected.len() { "packets-missing" } else if o.results.len() > expected.len() { "packet-duplicated" } else { "packet-differs" };
        p.violation(
            format!("C19/real-{trn}/{what}"),
            format!(
                "{label}: {} frames sent, {} results after {} dropped reads; first difference at #{at}: {} vs {} (end {:?})",
                expected.len(),
                o.results.len(),
                o.drops,
                o.results.get(at).map(short).unwrap_or_else(|| "<none>".into()),
                expected.get(at).map(short).unwrap_or_else(|| "<none>".into()),
                o.end
            ),
            replay.clone(),
        );
    }
    if tr != Tr::Udp && o.lost.is_none() && !matches!(o.end, Some(ReadResult::Disconnected)) && o.results.len() <= expected.len() {
        p.violation(format!("C19/real-{trn}/end-not-disconnected"), format!("{label}: the peer closed after its last frame but the raced read ended with {:?}", o.end), replay.clone());
    }
    // outgoing side: exactly one whole reply per keep-alive, nothing else
    let reply = ka(compressed);
    let ok = match tr {
        Tr::Tcp => o.outgoing.len() == 1 && o.outgoing[0].len() == 4 * n_ka && o.outgoing[0].chunks(4).all(|c| c == &reply[..]),
        _ => o.outgoing.len() == n_ka && o.outgoing.iter().all(|m| *m == reply),
    };
    if !ok && o.results.len() == expected.len() {
        p.violation(
            format!("C19/real-{trn}/outgoing-differs"),
            format!("{label}: {n_ka} keep-alives received; the peer saw {:?} on the outgoing side after {} dropped reads", o.outgoing.iter().map(|m| hex(&m[..m.len().min(24)])).collect::<Vec<_>>(), o.drops),
            replay,
        );
    }
    Ok(())
}
