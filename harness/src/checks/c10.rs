//! C10 — Codepage text conversion is faithful, total and uses LFS's tables.

use std::collections::{BTreeMap, HashMap, HashSet};

use insim_core::string::codepages::{to_lossy_bytes, to_lossy_string};
use rayon::prelude::*;
use serde_json::json;

use crate::ctx::{guarded, hex, verif_root, Ctx, Part};

pub const LETTERS: [(char, &str); 10] = [
    ('L', "cp1252"),
    ('G', "cp1253"),
    ('C', "cp1251"),
    ('E', "cp1250"),
    ('T', "cp1254"),
    ('B', "cp1257"),
    ('J', "cp932"),
    ('S', "cp936"),
    ('K', "cp949"),
    ('H', "cp950"),
];

fn same_named(cp: &str) -> &'static encoding_rs::Encoding {
    match cp {
        "cp1252" => encoding_rs::WINDOWS_1252,
        "cp1253" => encoding_rs::WINDOWS_1253,
        "cp1251" => encoding_rs::WINDOWS_1251,
        "cp1250" => encoding_rs::WINDOWS_1250,
        "cp1254" => encoding_rs::WINDOWS_1254,
        "cp1257" => encoding_rs::WINDOWS_1257,
        "cp932" => encoding_rs::SHIFT_JIS,
        "cp936" => encoding_rs::GBK,
        "cp949" => encoding_rs::EUC_KR,
        "cp950" => encoding_rs::BIG5,
        _ => unreachable!(),
    }
}

pub struct Table {
    pub letter: char,
    pub name: &'static str,
    /// full Microsoft table (from CPython), bytes -> char
    pub ms: HashMap<Vec<u8>, char>,
    /// agreement core with the WHATWG encoding of the same name
    pub core: Vec<(Vec<u8>, char)>,
    pub core_map: HashMap<Vec<u8>, char>,
    pub lead: [bool; 256],
}

pub struct Tables {
    pub t: Vec<Table>,
    /// characters safe for the encode-side checks: in some core, and wherever a same-named WHATWG
    /// encoder can encode them the bytes are that page's Microsoft mapping of the same character
    pub safe: Vec<char>,
    pub safe_by_letter: BTreeMap<char, Vec<char>>,
}

impl Tables {
    pub fn by_letter(&self, l: char) -> &Table {
        self.t.iter().find(|t| t.letter == l).unwrap()
    }
}

pub fn load_tables() -> Result<Tables, String> {
    let dir = verif_root().join("ref").join("codepages");
    let mut t = vec![];
    for (letter, name) in LETTERS {
        let text = std::fs::read_to_string(dir.join(format!("{name}.tsv"))).map_err(|e| format!("{name}.tsv: {e}"))?;
        let enc = same_named(name);
        let mut ms = HashMap::new();
        let mut core = vec![];
        let mut lead = [false; 256];
        for line in text.lines() {
            let Some((h, c)) = line.split_once('\t') else { continue };
            let bytes = crate::ctx::unhex(h);
            let Some(ch) = u32::from_str_radix(c, 16).ok().and_then(char::from_u32) else { continue };
            if bytes.len() == 2 {
                lead[bytes[0] as usize] = true;
            }
            let _ = ms.insert(bytes.clone(), ch);
            if let Some(s) = enc.decode_without_bom_handling_and_without_replacement(&bytes) {
                let mut it = s.chars();
                if it.next() == Some(ch) && it.next().is_none() {
                    core.push((bytes, ch));
                }
            }
        }
        let core_map = core.iter().cloned().collect();
        t.push(Table { letter, name, ms, core, core_map, lead });
    }
    // safe characters
    let mut cand: HashSet<char> = HashSet::new();
    for tb in &t {
        for (_, c) in &tb.core {
            let _ = cand.insert(*c);
        }
    }
    let mut safe = vec![];
    let mut safe_by_letter: BTreeMap<char, Vec<char>> = BTreeMap::new();
    let mut buf = [0u8; 4];
    'c: for c in cand {
        if c == '^' || (c as u32) < 0x80 {
            continue;
        }
        let s = c.encode_utf8(&mut buf);
        let mut homes = vec![];
        for tb in &t {
            let (bytes, _, err) = same_named(tb.name).encode(s);
            if err {
                continue;
            }
            if tb.ms.get(bytes.as_ref()) != Some(&c) {
                continue 'c;
            }
            homes.push(tb.letter);
        }
        if homes.is_empty() {
            continue;
        }
        safe.push(c);
        for h in homes {
            safe_by_letter.entry(h).or_default().push(c);
        }
    }
    safe.sort();
    for v in safe_by_letter.values_mut() {
        v.sort();
    }
    Ok(Tables { t, safe, safe_by_letter })
}

/// 40-line reference decoder: left to right, double-byte aware, Microsoft tables.
/// Returns the text and the marker letter in effect at each output char (for triage).
pub fn ref_decode(tb: &Tables, input: &[u8]) -> (String, Vec<char>) {
    let mut out = String::new();
    let mut eff = vec![];
    let mut cur = tb.by_letter('L');
    let mut i = 0;
    while i < input.len() {
        let b = input[i];
        if b == b'^' && i + 1 < input.len() {
            let n = input[i + 1];
            if n == b'^' {
                out.push_str("^^");
                eff.push(cur.letter);
                eff.push(cur.letter);
                i += 2;
                continue;
            }
            if n == b'8' {
                cur = tb.by_letter('L');
                out.push_str("^8");
                eff.push('L');
                eff.push('L');
                i += 2;
                continue;
            }
            if let Some(t) = tb.t.iter().find(|t| t.letter as u8 == n) {
                cur = t;
                i += 2;
                continue;
            }
        }
        if b < 0x80 {
            out.push(b as char);
            eff.push(cur.letter);
            i += 1;
        } else if cur.lead[b as usize] && i + 1 < input.len() {
            out.push(cur.ms.get(&input[i..i + 2]).copied().unwrap_or('\u{FFFD}'));
            eff.push(cur.letter);
            i += 2;
        } else {
            out.push(cur.ms.get(&input[i..i + 1]).copied().unwrap_or('\u{FFFD}'));
            eff.push(cur.letter);
            i += 1;
        }
    }
    (out, eff)
}

fn first_diff(a: &str, b: &str) -> usize {
    a.chars().zip(b.chars()).position(|(x, y)| x != y).unwrap_or_else(|| a.chars().count().min(b.chars().count()))
}

/// encode-side checks on one caret-free string over safe characters
fn check_encode(tb: &Tables, s: &str, class: &str, p: &mut Part) {
    p.evaluations += 1;
    p.distinct(s);
    let input = json!({"input": s, "class": class});
    let bytes = match guarded(|| to_lossy_bytes(s).to_vec()) {
        Ok(b) => b,
        Err(pn) => {
            p.violation("C10/encode-panic", format!("to_lossy_bytes({:?}) panicked: {pn}", s), input);
            return;
        },
    };
    // 2. encoder uses LFS's tables: the reference decoder must recover s
    let (rd, eff) = ref_decode(tb, &bytes);
    if rd != s {
        let at = first_diff(&rd, s);
        let letter = eff.get(at).copied().unwrap_or('?');
        p.violation(
            format!("C10/encode-table/{letter}"),
            format!("to_lossy_bytes({:?}) = {}; LFS's tables decode that to {:?} (first difference at char {at}, under ^{letter})", s, hex(&bytes), rd),
            input.clone(),
        );
    }
    // 3. faithfulness through the real decoder
    match guarded(|| to_lossy_string(&bytes).to_string()) {
        Ok(back) if back == s => {},
        Ok(back) => p.violation(
            format!("C10/roundtrip/{class}"),
            format!("{:?} encodes to {} which decodes to {:?}", s, hex(&bytes), back),
            input,
        ),
        Err(pn) => p.violation("C10/decode-panic", format!("to_lossy_string({}) panicked: {pn}", hex(&bytes)), input),
    }
}

/// Miri slice: building the reference tables is far too slow under the interpreter, so a fixed set of
/// well-known (marker, bytes, character) triples and round-trip strings is used instead. Miri's job here
/// is undefined behaviour in encoding_rs / the conversion code on these paths, not table conformance.
fn run_miri(ctx: &mut Ctx) -> (&'static str, String, bool) {
    let (shard, nshards) = ctx.shard;
    let triples: [(char, &[u8], char); 12] = [
        ('L', &[0xE9], 'é'),
        ('G', &[0xEB], 'λ'),
        ('C', &[0xE6], 'ж'),
        ('E', &[0xEC], 'ě'),
        ('T', &[0xFD], 'ı'),
        ('B', &[0xF2], 'ņ'),
        ('J', &[0x82, 0xA0], 'あ'),
        ('J', &[0x81, 0x5E], '／'),
        ('S', &[0xD6, 0xD0], '中'),
        ('K', &[0xC7, 0xD1], '한'),
        ('H', &[0xA4, 0xA4], '中'),
        ('L', &[0x80], '€'),
    ];
    let mut p = Part::new();
    for (i, (m, bytes, ch)) in triples.iter().enumerate() {
        if (i as u64) % nshards != shard {
            continue;
        }
        p.evaluations += 1;
        p.distinct(&(m, bytes));
        let mut input = vec![b'^', *m as u8];
        input.extend_from_slice(bytes);
        match guarded(|| to_lossy_string(&input).to_string()) {
            Ok(s) if s.chars().eq(std::iter::once(*ch)) => {},
            other => p.violation(format!("C10/decode-table/{m}"), format!("bytes {} after ^{m}: {:?}", hex(bytes), other), json!({"input_hex": hex(&input)})),
        }
        for s in [format!("a{ch}b"), format!("{ch}L{ch}^8{ch}"), format!("ÿþ{ch}"), format!("{ch}").repeat(40)] {
            let caret_free = s.replace('^', "");
            p.evaluations += 1;
            p.distinct(&caret_free);
            match guarded(|| to_lossy_string(&to_lossy_bytes(&caret_free)).to_string()) {
                Ok(back) if back == caret_free => {},
                other => p.violation("C10/roundtrip/miri-sample", format!("{:?} -> {:?}", caret_free, other), json!({"input": caret_free})),
            }
        }
    }
    let mut r = ctx.rng.fork(1000 + shard);
    for _ in 0..30 {
        let len = r.usize_below(24);
        let b: Vec<u8> = (0..len).map(|_| if r.chance(1, 3) { *r.pick(b"^^LGCETBJHSK8\x81\x5e\xff\xfe") } else { r.below(256) as u8 }).collect();
        p.evaluations += 1;
        p.distinct(&b);
        if let Err(pn) = guarded(|| to_lossy_string(&b).len()) {
            p.violation("C10/decode-panic", format!("to_lossy_string({}) panicked: {pn}", hex(&b)), json!({"input_hex": hex(&b)}));
        }
    }
    ctx.merge(p);
    ("exploration", "Miri slice: fixed (marker, bytes, character) triples decoded and round-tripped in several contexts, random hostile byte strings".into(), false)
}

pub fn run(ctx: &mut Ctx) -> (&'static str, String, bool) {
    if ctx.stage.as_deref() == Some("miri") {
        return run_miri(ctx);
    }
    let tb = match load_tables() {
        Ok(t) => t,
        Err(e) => {
            ctx.inconclusive(format!("cannot load reference codepage tables: {e}"));
            return ("exploration", "reference tables missing".into(), false);
        },
    };
    let tb = &tb;
    let mut sizes = serde_json::Map::new();
    for t in &tb.t {
        let _ = sizes.insert(format!("^{} {}", t.letter, t.name), json!({"microsoft_entries": t.ms.len(), "agreement_core": t.core.len()}));
    }
    ctx.extra("tables", serde_json::Value::Object(sizes));
    ctx.extra("safe_characters", json!(tb.safe.len()));
    if tb.safe.len() < 20_000 {
        ctx.inconclusive("reference tables look truncated (fewer than 20000 safe characters)");
    }

    // ---- 1. decode-side table conformance: every core entry after its marker -----------------
    let parts: Vec<Part> = tb
        .t
        .par_iter()
        .map(|t| {
            let mut p = Part::new();
            for (bytes, ch) in &t.core {
                for marker in if t.letter == 'L' { vec!['L', '8'] } else { vec![t.letter] } {
                    p.evaluations += 1;
                    p.distinct(&(marker, bytes));
                    let mut input = vec![b'^', marker as u8];
                    input.extend_from_slice(bytes);
                    let mut expect = String::new();
                    if marker == '8' {
                        expect.push_str("^8");
                    }
                    expect.push(*ch);
                    match guarded(|| to_lossy_string(&input).to_string()) {
                        Ok(s) if s == expect => {},
                        Ok(s) => p.violation(
                            format!("C10/decode-table/{marker}"),
                            format!("bytes {} after ^{marker} must be {:?} ({}), decoded as {:?}", hex(bytes), ch, t.name, s),
                            json!({"input_hex": hex(&input)}),
                        ),
                        Err(pn) => p.violation("C10/decode-panic", format!("to_lossy_string({}) panicked: {pn}", hex(&input)), json!({"input_hex": hex(&input)})),
                    }
                }
            }
            // colour codes (^0..^9 except ^8) and other caret pairs inside a segment do not change the codepage
            let stride = if t.core.len() > 1000 { 211 } else { 7 };
            for (i, (bytes, ch)) in t.core.iter().enumerate() {
                if i % stride != 0 {
                    continue;
                }
                let (b2, ch2) = &t.core[(i * 7 + 3) % t.core.len()];
                for mid in ["^0", "^1", "^7", "^9", "^^", "^v", "^h", "^x"] {
                    p.evaluations += 1;
                    let mut input = vec![b'^', t.letter as u8];
                    input.extend_from_slice(bytes);
                    input.extend_from_slice(mid.as_bytes());
                    input.extend_from_slice(b2);
                    let expect = format!("{ch}{mid}{ch2}");
                    match guarded(|| to_lossy_string(&input).to_string()) {
                        Ok(s) if s == expect => {},
                        Ok(s) => p.violation(
                            format!("C10/decode-table/{}/after-{}", t.letter, mid),
                            format!("bytes {} must decode to {:?} ({} stays in effect after {mid}), decoded as {:?}", hex(&input), expect, t.name, s),
                            json!({"input_hex": hex(&input)}),
                        ),
                        Err(pn) => p.violation("C10/decode-panic", format!("to_lossy_string({}) panicked: {pn}", hex(&input)), json!({"input_hex": hex(&input)})),
                    }
                }
            }
            // also without any marker: Latin-1 default
            if t.letter == 'L' {
                for (bytes, ch) in &t.core {
                    p.evaluations += 1;
                    match guarded(|| to_lossy_string(bytes).to_string()) {
                        Ok(s) if s.chars().eq(std::iter::once(*ch)) => {},
                        other => p.violation("C10/decode-table/default", format!("byte {} without marker must be {:?}, got {:?}", hex(bytes), ch, other), json!({"input_hex": hex(bytes)})),
                    }
                }
            }
            p
        })
        .collect();
    for p in parts {
        ctx.merge(p);
    }

    // ---- 2+3. encode side: each safe character in ASCII context ------------------------------
    let step = ctx.tier.pick(3usize, 1usize);
    let off = (ctx.seed % step as u64) as usize;
    let parts: Vec<Part> = tb
        .safe
        .par_chunks(512)
        .enumerate()
        .map(|(ci, chunk)| {
            let mut p = Part::new();
            for (i, c) in chunk.iter().enumerate() {
                if (ci * 512 + i) % step != off {
                    continue;
                }
                check_encode(tb, &format!("a{c}b"), "single-char", &mut p);
            }
            p
        })
        .collect();
    for p in parts {
        ctx.merge(p);
    }

    // ordered pairs of codepages + characters shared between pages + random multi-switch strings
    let letters: Vec<char> = tb.safe_by_letter.keys().copied().collect();
    let n = ctx.tier.pick(80_000u64, 4_000_000u64);
    let base = ctx.rng.fork(10);
    let parts: Vec<Part> = (0u64..16)
        .into_par_iter()
        .map(|t| {
            let mut r = base.fork(t);
            let mut p = Part::new();
            for l1 in &letters {
                for l2 in &letters {
                    for _ in 0..4 {
                        let a = *r.pick(&tb.safe_by_letter[l1]);
                        let b = *r.pick(&tb.safe_by_letter[l2]);
                        let c = *r.pick(&tb.safe_by_letter[l1]);
                        check_encode(tb, &format!("{a}x{b} {c}{b}"), "codepage-pair", &mut p);
                    }
                }
            }
            for _ in 0..n / 16 {
                let len = 1 + r.usize_below(40);
                let mut s = String::new();
                for _ in 0..len {
                    match r.below(10) {
                        0..=2 => s.push((b' ' + r.below(62) as u8) as char), // ASCII below '^'
                        3 => s.push(*r.pick(&['L', 'G', 'C', 'E', 'T', 'B', 'J', 'H', 'S', 'K', '8'])),
                        _ => {
                            let l = r.pick(&letters);
                            s.push(*r.pick(&tb.safe_by_letter[l]));
                        },
                    }
                }
                check_encode(tb, &s, "random-multi-codepage", &mut p);
            }
            p
        })
        .collect();
    for p in parts {
        ctx.merge(p);
    }

    // byte patterns that look like byte-order marks, at position 0 and right after a codepage switch
    {
        let mut p = Part::new();
        for t in &tb.t {
            for pat in [&[0xFFu8, 0xFE][..], &[0xFE, 0xFF], &[0xEF, 0xBB, 0xBF]] {
                // interpret the pattern in this codepage (single bytes, or lead+trail then single)
                let mut chars = String::new();
                let mut i = 0;
                let mut ok = true;
                while i < pat.len() {
                    if i + 1 < pat.len() && t.core_map.contains_key(&pat[i..i + 2]) {
                        chars.push(t.core_map[&pat[i..i + 2]]);
                        i += 2;
                    } else if let Some(c) = t.core_map.get(&pat[i..i + 1]) {
                        chars.push(*c);
                        i += 1;
                    } else {
                        ok = false;
                        break;
                    }
                }
                if !ok || !chars.chars().all(|c| tb.safe.binary_search(&c).is_ok()) {
                    continue;
                }
                check_encode(tb, &format!("{chars}abc"), "bom-like-prefix", &mut p);
                check_encode(tb, &format!("abc{chars}def"), "bom-like-inside", &mut p);
                check_encode(tb, &format!("{chars}"), "bom-like-prefix", &mut p);
                // right after a switch from another page
                let other = if t.letter == 'C' { 'ě' } else { 'ж' };
                check_encode(tb, &format!("{other}{chars}abc"), "bom-like-after-switch", &mut p);
            }
        }
        p.count("bom_like_cases", p.evaluations);
        ctx.merge(p);
    }

    // every double-byte character whose trail byte is 0x5E, followed by each marker letter and '8'
    {
        let mut p = Part::new();
        let mut n = 0u64;
        for t in &tb.t {
            for (bytes, ch) in &t.core {
                if bytes.len() == 2 && bytes[1] == 0x5E && tb.safe.binary_search(ch).is_ok() {
                    for l in ['L', 'G', 'C', 'E', 'T', 'B', 'J', 'H', 'S', 'K', '8', 'x'] {
                        check_encode(tb, &format!("{ch}{l}"), "trail-5e-before-marker-letter", &mut p);
                        check_encode(tb, &format!("a{ch}{l}{ch}"), "trail-5e-before-marker-letter", &mut p);
                        n += 2;
                    }
                }
            }
        }
        p.count("trail_5e_cases", n);
        ctx.merge(p);
    }

    // ---- 4. ASCII passes through byte-for-byte -----------------------------------------------
    {
        let maxlen = ctx.tier.pick(2usize, 3usize);
        let parts: Vec<Part> = (0u32..128)
            .into_par_iter()
            .map(|a| {
                let mut p = Part::new();
                let chk = |s: &[u8], p: &mut Part| {
                    p.evaluations += 1;
                    let st = std::str::from_utf8(s).unwrap();
                    match guarded(|| to_lossy_bytes(st).to_vec()) {
                        Ok(b) if b == s => {},
                        other => p.violation("C10/ascii-not-identity", format!("ASCII {:?} encodes to {:?}", st, other.map(|b| hex(&b))), json!({"input_hex": hex(s)})),
                    }
                };
                chk(&[a as u8], &mut p);
                for b in 0u8..128 {
                    chk(&[a as u8, b], &mut p);
                    if maxlen >= 3 {
                        for c in 0u8..128 {
                            chk(&[a as u8, b, c], &mut p);
                        }
                    }
                }
                p.distinct_extra += p.evaluations;
                p
            })
            .collect();
        for p in parts {
            ctx.merge(p);
        }
        let mut r = ctx.rng.fork(104);
        let mut p = Part::new();
        for _ in 0..ctx.tier.pick(20_000, 200_000) {
            let len = r.usize_below(300);
            let s: Vec<u8> = (0..len).map(|_| r.below(128) as u8).collect();
            let st = std::str::from_utf8(&s).unwrap();
            p.evaluations += 1;
            match guarded(|| to_lossy_bytes(st).to_vec()) {
                Ok(b) if b == s => {},
                other => p.violation("C10/ascii-not-identity", format!("ASCII string encodes differently: {:?}", other.map(|b| hex(&b))), json!({"input_hex": hex(&s)})),
            }
        }
        ctx.merge(p);
    }

    // ---- 5. unrepresentable characters become '?' without touching their neighbours ---------
    {
        let mut unrep: Vec<char> = vec![];
        let mut buf = [0u8; 4];
        let candidates = (0x0900u32..0x0980)
            .chain(0x0E00..0x0E60)
            .chain(0x0590..0x0600)
            .chain(0x0600..0x0650)
            .chain(0x1F600..0x1F650)
            .chain(0x10000..0x10080)
            .chain(0x1D400..0x1D420);
        for u in candidates {
            let Some(c) = char::from_u32(u) else { continue };
            let s = c.encode_utf8(&mut buf);
            let in_ms = tb.t.iter().any(|t| t.ms.values().any(|x| *x == c));
            let in_whatwg = tb.t.iter().any(|t| !same_named(t.name).encode(s).2);
            // also not encodable by any encoding a plausible implementation might pick for these letters
            let others = [encoding_rs::ISO_8859_7, encoding_rs::ISO_8859_2, encoding_rs::ISO_8859_13, encoding_rs::GB18030];
            let in_other = others.iter().any(|e| !e.encode(s).2);
            if !in_ms && !in_whatwg && !in_other {
                unrep.push(c);
            }
        }
        ctx.extra("unrepresentable_characters_used", json!(unrep.len()));
        let mut r = ctx.rng.fork(105);
        let mut p = Part::new();
        for (i, u) in unrep.iter().enumerate() {
            for k in 0..ctx.tier.pick(2, 12) {
                let mk = |r: &mut crate::rng::Rng| -> String {
                    let len = r.usize_below(5);
                    let mut s = String::new();
                    for _ in 0..len {
                        if r.chance(1, 2) {
                            s.push((b'a' + r.below(26) as u8) as char);
                        } else {
                            let l = r.pick(&letters);
                            s.push(*r.pick(&tb.safe_by_letter[l]));
                        }
                    }
                    s
                };
                let (a, b) = if k == 0 { (String::new(), String::new()) } else { (mk(&mut r), mk(&mut r)) };
                let s = format!("{a}{u}{b}");
                let expect = format!("{a}?{b}");
                p.evaluations += 1;
                p.distinct(&s);
                let bytes = match guarded(|| to_lossy_bytes(&s).to_vec()) {
                    Ok(b) => b,
                    Err(pn) => {
                        p.violation("C10/encode-panic", format!("to_lossy_bytes({:?}) panicked: {pn}", s), json!({"input": s}));
                        continue;
                    },
                };
                let (rd, _) = ref_decode(tb, &bytes);
                if rd != expect {
                    p.violation(
                        "C10/unrepresentable-not-question-mark",
                        format!("{:?} (U+{:04X} exists in no codepage) encodes to {} = {:?}; expected {:?}", s, *u as u32, hex(&bytes), rd, expect),
                        json!({"input": s}),
                    );
                }
                if i < 2 && k == 1 {
                    p.sample(json!({"input": s, "wire_hex": hex(&bytes), "expected_text": expect}));
                }
            }
        }
        ctx.merge(p);
    }

    // ---- 6. totality: every byte pair after every marker; random bytes; random Unicode ------
    {
        let markers: Vec<u8> = "LGCETBJHSK8".bytes().collect();
        let stride = ctx.tier.pick(5u32, 1u32);
        let off = (ctx.seed % stride as u64) as u32;
        let parts: Vec<Part> = markers
            .par_iter()
            .map(|m| {
                let mut p = Part::new();
                for b1 in 0u32..256 {
                    p.evaluations += 1;
                    let input = [b'^', *m, b1 as u8];
                    if let Err(pn) = guarded(|| to_lossy_string(&input).len()) {
                        p.violation("C10/decode-panic", format!("to_lossy_string({}) panicked: {pn}", hex(&input)), json!({"input_hex": hex(&input)}));
                    }
                    for b2 in 0u32..256 {
                        if (b1 * 256 + b2) % stride != off {
                            continue;
                        }
                        p.evaluations += 1;
                        let input = [b'^', *m, b1 as u8, b2 as u8];
                        if let Err(pn) = guarded(|| to_lossy_string(&input).len()) {
                            p.violation("C10/decode-panic", format!("to_lossy_string({}) panicked: {pn}", hex(&input)), json!({"input_hex": hex(&input)}));
                        }
                    }
                }
                p.distinct_extra += p.evaluations;
                p
            })
            .collect();
        for p in parts {
            ctx.merge(p);
        }
        let n = ctx.tier.pick(100_000u64, 2_000_000u64);
        let base = ctx.rng.fork(106);
        let parts: Vec<Part> = (0u64..16)
            .into_par_iter()
            .map(|t| {
                let mut r = base.fork(t);
                let mut p = Part::new();
                let bias = b"^^^^LGCETBJHSK8\x81\x5e\xff\xfe\xef\xbb\xbf\x00";
                for i in 0..n / 16 {
                    let len = r.usize_below(48);
                    if i % 2 == 0 {
                        let bytes: Vec<u8> = (0..len).map(|_| if r.chance(1, 3) { *r.pick(bias) } else { r.below(256) as u8 }).collect();
                        p.evaluations += 1;
                        p.distinct(&bytes);
                        if let Err(pn) = guarded(|| to_lossy_string(&bytes).len()) {
                            p.violation("C10/decode-panic", format!("to_lossy_string({}) panicked: {pn}", hex(&bytes)), json!({"input_hex": hex(&bytes)}));
                        }
                    } else {
                        let s: String = (0..len)
                            .filter_map(|_| if r.chance(1, 4) { Some('^') } else { char::from_u32(r.below(0x11_0000) as u32) })
                            .collect();
                        p.evaluations += 1;
                        p.distinct(&s);
                        match guarded(|| to_lossy_bytes(&s).to_vec()) {
                            Ok(b) => {
                                if let Err(pn) = guarded(|| to_lossy_string(&b).len()) {
                                    p.violation("C10/decode-panic", format!("to_lossy_string({}) panicked: {pn}", hex(&b)), json!({"input_hex": hex(&b)}));
                                }
                            },
                            Err(pn) => p.violation("C10/encode-panic", format!("to_lossy_bytes({:?}) panicked: {pn}", s), json!({"input": s})),
                        }
                    }
                }
                p
            })
            .collect();
        for p in parts {
            ctx.merge(p);
        }
    }

    // ---- 7. ASCII neighbours of undecodable bytes survive: marker, a run of invalid / arbitrary bytes, then
    //         two spaces (0x20 is no trail byte in any of the tables) and an ASCII tail that must come out unchanged ----
    {
        let mut p = Part::new();
        let mut r = ctx.rng.fork(107);
        const TAIL: &[u8] = b"  [abc] end";
        for m in "LGCETBJHSK".bytes() {
            for fill in [0xffu8, 0x80, 0x81, 0xa0, 0xfe, 0x00] {
                for run in [1usize, 2, 5, 11, 16, 40, 100] {
                    for variant in 0..3 {
                        let mut input = vec![b'^', m];
                        match variant {
                            0 => input.extend(std::iter::repeat(fill).take(run)),
                            1 => input.extend((0..run).map(|_| 0x80 + r.below(0x80) as u8)),
                            _ => {
                                input.extend_from_slice(b"ok ");
                                input.extend(std::iter::repeat(fill).take(run));
                            },
                        }
                        if fill == 0 && variant != 1 {
                            continue; // a NUL ends the text
                        }
                        input.extend_from_slice(TAIL);
                        p.evaluations += 1;
                        p.distinct(&input);
                        match guarded(|| to_lossy_string(&input).to_string()) {
                            Ok(out) => {
                                if !out.ends_with(" [abc] end") {
                                    p.violation(
                                        "C10/decode/ascii-after-undecodable-bytes-lost",
                                        format!("to_lossy_string({}) = {:?}: the ASCII text after the undecodable bytes must survive", hex(&input), out.chars().rev().take(24).collect::<String>().chars().rev().collect::<String>()),
                                        json!({"input_hex": hex(&input)}),
                                    );
                                }
                            },
                            Err(pn) => p.violation("C10/decode-panic", format!("to_lossy_string({}) panicked: {pn}", hex(&input)), json!({"input_hex": hex(&input)})),
                        }
                    }
                }
            }
        }
        ctx.merge(p);
    }

    // ---- 9. the whole repertoire: every character of every Microsoft table (not only the agreement core) between
    //         two characters that put the encoder into each of the ten codepages must survive encode-then-decode.
    //         (Private-use code points of the tables' vendor extensions are left out: no decoder agrees on them.) -----
    {
        let contexts: [(char, &str); 10] = [('L', "a"), ('G', "λ"), ('C', "ж"), ('E', "ě"), ('T', "ş"), ('B', "ņ"), ('J', "あ"), ('S', "们"), ('K', "한"), ('H', "們")];
        let mut all: std::collections::BTreeSet<char> = Default::default();
        for t in &tb.t {
            for ch in t.ms.values() {
                if (*ch as u32) >= 0x20 && *ch != '^' && !(0xE000..=0xF8FF).contains(&(*ch as u32)) {
                    let _ = all.insert(*ch);
                }
            }
        }
        let all: Vec<char> = all.into_iter().collect();
        ctx.extra("whole_repertoire_characters", json!(all.len()));
        let stride = ctx.tier.pick(3usize, 1usize);
        let off = (ctx.seed as usize) % stride;
        let parts: Vec<Part> = all
            .par_chunks(512)
            .enumerate()
            .map(|(ci, chunk)| {
                let mut p = Part::new();
                for (k, ch) in chunk.iter().enumerate() {
                    // CP1252's own characters in every context in every run; the rest strided in the quick tier
                    let latin = (*ch as u32) < 0x2100;
                    if !latin && (ci * 512 + k) % stride != off {
                        continue;
                    }
                    for (letter, cx) in contexts {
                        let s = format!("{cx}{ch}{cx}");
                        p.evaluations += 1;
                        p.distinct(&s);
                        match guarded(|| {
                            let b = to_lossy_bytes(&s).to_vec();
                            (to_lossy_string(&b).to_string(), b)
                        }) {
                            Ok((back, _)) if back == s => {},
                            Ok((back, b)) => p.violation(
                                format!("C10/roundtrip/whole-repertoire/{letter}"),
                                format!("{:?} (U+{:04X} in a ^{letter} context) encodes to {} which decodes to {:?}", s, *ch as u32, hex(&b), back),
                                json!({"input": s, "context": letter.to_string()}),
                            ),
                            Err(pn) => p.violation("C10/encode-panic", format!("converting {:?} panicked: {pn}", s), json!({"input": s})),
                        }
                    }
                }
                p
            })
            .collect();
        for p in parts {
            ctx.merge(p);
        }
    }
    // ---- 10. a character, one from another codepage, the first again (and variations): what was remembered about a
    //          character before a codepage switch must not be used after it -----------------------------------------
    {
        let mut p = Part::new();
        let reps: Vec<char> = "éøşāžěλжあﾏ美한中們们".chars().collect();
        for a in &reps {
            for b in &reps {
                if a == b {
                    continue;
                }
                for pat in [format!("{a}{b}{a}"), format!("{a}{a}{b}{a}"), format!("{a}{b}{a}{b}"), format!("{a}{b}{b}{a}{a}"), format!("x{a}{b}{a}y")] {
                    check_encode(tb, &pat, "repeat-across-switch", &mut p);
                }
            }
        }
        ctx.merge(p);
    }
    // ---- 11. every Unicode scalar value (not only the tables' repertoire) in each of the ten codepage contexts:
    //          after encode-then-decode the character is either itself or the fallback '?', never another character,
    //          and its neighbours are untouched. (Quick: the whole BMP and every 4th supplementary scalar.) ------------
    {
        let contexts: [(char, &str); 10] = [('L', "a"), ('G', "λ"), ('C', "ж"), ('E', "ě"), ('T', "ş"), ('B', "ņ"), ('J', "あ"), ('S', "们"), ('K', "한"), ('H', "們")];
        let stride = ctx.tier.pick(4u32, 1u32);
        let off = (ctx.seed as u32) % stride;
        let scalars: Vec<char> = (0x20u32..0x110000)
            .filter(|u| *u < 0x10000 || u % stride == off)
            .filter(|u| !(0xE000..=0xF8FF).contains(u) && *u != 0x5E)
            .filter_map(char::from_u32)
            .collect();
        ctx.extra("all_scalars_swept", json!(scalars.len()));
        let parts: Vec<Part> = scalars
            .par_chunks(4096)
            .map(|chunk| {
                let mut p = Part::new();
                for ch in chunk {
                    for (letter, cx) in contexts {
                        let s = format!("{cx}{ch}{cx}");
                        p.evaluations += 1;
                        match guarded(|| {
                            let b = to_lossy_bytes(&s).to_vec();
                            (to_lossy_string(&b).to_string(), b)
                        }) {
                            Ok((back, _)) if back == s => {},
                            Ok((back, _)) if back.chars().count() == 3 && back.starts_with(cx) && back.ends_with(cx) && back.chars().nth(1) == Some('?') => {},
                            Ok((back, b)) => p.violation(
                                format!("C10/scalar-becomes-another-character/{letter}"),
                                format!("{:?} (U+{:04X} in a ^{letter} context) encodes to {} which decodes to {:?}: neither the text nor the text with '?' in its place", s, *ch as u32, hex(&b), back),
                                json!({"input": s, "context": letter.to_string()}),
                            ),
                            Err(pn) => p.violation("C10/encode-panic", format!("converting {:?} panicked: {pn}", s), json!({"input": s})),
                        }
                    }
                }
                p.distinct(&format!("scalars-from-{:X}", chunk[0] as u32));
                p
            })
            .collect();
        for p in parts {
            ctx.merge(p);
        }
    }
    // ---- 12. characters whose second wire byte is 0x5E (a caret to anything that looks at bytes, not characters) next
    //          to the letters and digits that would complete a control code, colour codes, escaped carets and characters
    //          of the codepages such a misread code would name: all strings of up to four tokens ------------------------
    {
        const TOK: [&str; 15] = ["タ", "乛", "乞", "S", "J", "H", "L", "8", "^8", "^^", "们", "あ", "한", "們", "é"];
        let maxtok = 4u32;
        for len in 1..=maxtok {
            let n = (TOK.len() as u64).pow(len);
            let parts: Vec<Part> = (0..n.div_ceil(4096))
                .into_par_iter()
                .map(|c| {
                    let mut p = Part::new();
                    for i in c * 4096..((c + 1) * 4096).min(n) {
                        let mut idx = i;
                        let mut s = String::new();
                        for _ in 0..len {
                            s.push_str(TOK[(idx % TOK.len() as u64) as usize]);
                            idx /= TOK.len() as u64;
                        }
                        check_encode(tb, &s, "trail-byte-5e-neighbourhood", &mut p);
                    }
                    p
                })
                .collect();
            for p in parts {
                ctx.merge(p);
            }
        }
    }
    // ---- 8. homogeneous runs: n copies of one character (alone, after a short ASCII prefix, before an ASCII tail). The
    //         ratio of UTF-8 length to wire length is extreme for half-width katakana and the 0x80-0x9F punctuation ------
    {
        let mut p = Part::new();
        let mut chars: Vec<char> = (0xFF61u32..=0xFF9F).filter_map(char::from_u32).collect(); // half-width katakana (CP932 single bytes)
        chars.extend("€‚„…†‡‰‹‘’“”•–—™›".chars()); // three UTF-8 bytes, one CP125x byte
        chars.extend("éшλěžあ美한中們简".chars());
        for ch in chars {
            for n in [1usize, 2, 4, 5, 6, 7, 8, 15, 16, 17, 31, 32, 33, 64, 100] {
                for (pre, post) in [("", ""), ("a", ""), ("", " x"), ("ab ", " [z]")] {
                    let s: String = format!("{pre}{}{post}", std::iter::repeat(ch).take(n).collect::<String>());
                    check_encode(tb, &s, "homogeneous-run", &mut p);
                }
            }
        }
        ctx.merge(p);
    }

    for s in ["Árvíztűrő", "ěšΩж美한中"] {
        if let Ok(v) = guarded(|| {
            let b = to_lossy_bytes(s).to_vec();
            json!({"input": s, "wire_hex": hex(&b), "reference_decoding": ref_decode(tb, &b).0, "decoded": to_lossy_string(&b)})
        }) {
            ctx.sample(v);
        }
    }
    ctx.assume("authority: Microsoft codepage tables as shipped in CPython's codecs, restricted to the agreement core with the WHATWG encoding of the same name (sizes in coverage.tables)");
    ctx.assume("encode-side strings are drawn from 'safe' characters: wherever a same-named WHATWG encoder can encode them, the bytes are the Microsoft mapping of that character");
    (
        "exploration",
        "every core entry of the ten tables decoded after its marker (exhaustive); every safe character encoded in ASCII context (quick: every 3rd, offset by seed); codepage-pair and random multi-switch strings; BOM-lookalike prefixes; every double-byte character with trail byte 0x5E before every marker letter; ASCII strings (exhaustive to length 2/3); unrepresentable characters; every byte (pair) after every marker for totality; runs of 1-100 undecodable bytes after every marker followed by an ASCII tail that must survive; runs of 1-100 copies of one character; every character of every Microsoft table (35 000, private-use points excepted) in each of the ten codepage contexts; every Unicode scalar value (quick: the BMP and every 4th beyond) in the same ten contexts must come back as itself or as '?'; distinct = distinct inputs".into(),
        false,
    )
}
