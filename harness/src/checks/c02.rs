//! C02 — Wire layout conforms to the InSim v9 / relay specification (differential against the reference codec).

use std::collections::BTreeSet;

use rayon::prelude::*;
use serde_json::json;

use crate::{
    bind,
    corpus::{self, debug_diff_field, mode_name, real_decode, real_encode, Corpus, Dec, Enc, MODES},
    ctx::{guarded, hex, Ctx, Part},
    refspec::{ascii_text_enc, json_of, Field, FieldMap, GenOpts, Kind, Layout, SmallArm, Spec, TextMode, Val},
    rng::Rng,
};

fn int_sweep(bits: u32, thorough: bool) -> Vec<u64> {
    let max = (1u64 << bits) - 1;
    let mut v = vec![0, 1, 2, max, max - 1, 1 << (bits - 1), (1 << (bits - 1)) - 1];
    if bits == 8 && thorough {
        v = (0..=255).collect();
    }
    if bits > 8 {
        v.extend([0x0102 & max, 0x0201 & max, 0x01020304 & max, 0x04030201 & max, 0xff, 0x100, 0xff00 & max]);
    }
    v.sort();
    v.dedup();
    v
}

/// Single-field perturbations of `fields` inside `fm`.
fn field_sweeps(spec: &Spec, fields: &[Field], fm: &FieldMap, thorough: bool) -> Vec<(String, FieldMap)> {
    let mut out = vec![];
    let mut with = |name: &str, label: &str, v: Val| {
        let mut m = fm.clone();
        let _ = m.insert(name.to_string(), v);
        out.push((label.to_string(), m));
    };
    for f in fields {
        if f.name == "TextStart" {
            continue; // MSO: swept separately (must stay inside the message)
        }
        match &f.kind {
            Kind::U8 | Kind::I8 => {
                for v in int_sweep(8, thorough) {
                    if f.max.map(|m| v <= m).unwrap_or(true) {
                        with(&f.name, &f.name, Val::U(v));
                    }
                }
            },
            Kind::U16 | Kind::I16 => int_sweep(16, thorough).into_iter().for_each(|v| with(&f.name, &f.name, Val::U(v))),
            Kind::U12 => int_sweep(12, thorough).into_iter().for_each(|v| with(&f.name, &f.name, Val::U(v))),
            Kind::U32 | Kind::I32 => int_sweep(32, thorough).into_iter().for_each(|v| with(&f.name, &f.name, Val::U(v))),
            Kind::Dur { bytes, .. } => int_sweep(*bytes as u32 * 8, thorough).into_iter().for_each(|v| with(&f.name, &f.name, Val::U(v))),
            Kind::F32 => {
                for b in [0u32, 1.0f32.to_bits(), (-2.5f32).to_bits(), 0x0102_0304, f32::MAX.to_bits()] {
                    with(&f.name, &f.name, Val::F(b));
                }
            },
            Kind::Bool => {
                with(&f.name, &f.name, Val::U(0));
                with(&f.name, &f.name, Val::U(1));
            },
            Kind::Char8 => [0u64, b'!' as u64, b'~' as u64, 0x80, 0xff].into_iter().for_each(|v| with(&f.name, &f.name, Val::U(v))),
            Kind::RaceLaps => (0u64..=238).for_each(|v| with(&f.name, &f.name, Val::U(v))),
            Kind::Enum8(e) => spec.enums[e].iter().for_each(|(n, _)| with(&f.name, &f.name, Val::E(n.clone()))),
            Kind::Flags(_, fl) => {
                let t = &spec.flags[fl];
                with(&f.name, &f.name, Val::S(vec![]));
                with(&f.name, &f.name, Val::S(t.iter().map(|x| x.0.clone()).collect()));
                for (n, _) in t {
                    with(&f.name, &f.name, Val::S(vec![n.clone()]));
                }
            },
            Kind::Text { n, .. } | Kind::ZText(n) | Kind::VText(n) | Kind::ZVText(n) => {
                let variable = matches!(f.kind, Kind::VText(_) | Kind::ZVText(_));
                for len in [1usize, 2, 3, 5, n / 2 + 1, n - 2, n - 1] {
                    let zt = matches!(f.kind, Kind::ZText(_) | Kind::ZVText(_));
                    if len == 0 || len >= *n || (zt && len >= n - 1) || (variable && len % 4 == 0) {
                        continue;
                    }
                    let s: String = (0..len).map(|i| (b'A' + (i % 26) as u8) as char).collect();
                    with(&f.name, &f.name, Val::T(s));
                }
            },
            Kind::Vehicle => {
                for c in crate::refspec::BUILTIN_CARS {
                    with(&f.name, &f.name, Val::T(c.to_string()));
                }
                with(&f.name, &f.name, Val::E("UNKNOWN".into()));
                for id in [1u64, 0x01020304, 0xFFFFFFFF, 0x00BEEF00, 0x4D0C53] {
                    with(&f.name, &f.name, Val::U(id));
                }
            },
            Kind::Track => {
                for t in bind::track_codes().iter().step_by(if thorough { 1 } else { 7 }) {
                    with(&f.name, &f.name, Val::T(t.clone()));
                }
            },
            Kind::GameVer => ["0.7F", "0.6U12", "0.04K", "0.7E15"].into_iter().for_each(|v| with(&f.name, &f.name, Val::T(v.to_string()))),
            Kind::Ip => with(&f.name, &f.name, Val::B(vec![1, 2, 3, 4])),
            Kind::Nib(hi, lo) => {
                for v in 0u64..16 {
                    with(hi, &format!("{}.{hi}", f.name), Val::U(v));
                    if lo != "SpareLow" {
                        with(lo, &format!("{}.{lo}", f.name), Val::U(v));
                    }
                }
            },
            Kind::Bytes(n) => {
                with(&f.name, &f.name, Val::B((0..*n).map(|i| i as u8 + 1).collect()));
                with(&f.name, &f.name, Val::B(vec![0xff; *n]));
            },
            Kind::Pad(_) | Kind::Count(_) | Kind::Array(..) | Kind::List { .. } | Kind::Small | Kind::Cim => {},
        }
    }
    out
}

/// All single-field perturbations of a packet assignment, including fields of the first element of
/// arrays/lists, list lengths, and every arm of the tagged unions.
pub fn sweeps(c: &Corpus, lay: &Layout, base: &FieldMap, r: &mut Rng, thorough: bool) -> Vec<(String, FieldMap)> {
    let spec = &c.spec;
    let mut out = field_sweeps(spec, &lay.fields, base, thorough);
    if lay.name == "MSO" {
        for (label, m) in out.iter_mut() {
            if label == "Msg" {
                corpus::set(m, "TextStart", Val::U(0)); // keep TextStart inside the (new) message
            }
        }
    }
    for v in int_sweep(8, thorough) {
        let mut m = base.clone();
        corpus::set(&mut m, "ReqI", Val::U(v));
        out.push(("ReqI".into(), m));
    }
    let g = c.gen();
    let o = GenOpts { text: TextMode::AsciiPlacement, max_list: None, boundary: 0, hostile: false };
    for f in &lay.fields {
        match &f.kind {
            Kind::Array(n, st) => {
                let sl = &spec.structs[st];
                if let Some(Val::L(items)) = base.get(&f.name) {
                    for idx in [0usize, n - 1] {
                        for (label, sub) in field_sweeps(spec, &sl.fields, &items[idx], thorough) {
                            let mut its = items.clone();
                            its[idx] = sub;
                            let mut m = base.clone();
                            corpus::set(&mut m, &f.name, Val::L(its));
                            out.push((format!("{}.{label}", f.name), m));
                        }
                        if *n == 1 {
                            break;
                        }
                    }
                }
            },
            Kind::List { elem, max, .. } => {
                let counts: Vec<usize> = if thorough { (0..=*max).collect() } else { vec![0, 1, 2, 3, max / 2, max - 1, *max] };
                for n in counts {
                    if n > *max {
                        continue;
                    }
                    let mut m = base.clone();
                    let v = if elem == "u32" {
                        Val::P((0..n).map(|i| Val::U(0x0100_0000 + 0x0001_0203 * (i as u64 + 1))).collect())
                    } else if elem == "ip" {
                        Val::P((0..n).map(|i| Val::B(vec![10, (i / 200) as u8, (i % 200) as u8 + 1, 7])).collect())
                    } else {
                        Val::L((0..n).map(|_| g.fields(r, &spec.structs[elem].fields, &o)).collect())
                    };
                    corpus::set(&mut m, &f.name, v);
                    out.push((format!("{}#count", f.name), m));
                }
                if elem != "u32" && elem != "ip" {
                    let sl = &spec.structs[elem];
                    let items: Vec<FieldMap> = (0..2.min(*max)).map(|_| g.fields(r, &sl.fields, &o)).collect();
                    for idx in 0..items.len() {
                        for (label, sub) in field_sweeps(spec, &sl.fields, &items[idx], thorough) {
                            let mut its = items.clone();
                            its[idx] = sub;
                            let mut m = base.clone();
                            corpus::set(&mut m, &f.name, Val::L(its));
                            out.push((format!("{}[{idx}].{label}", f.name), m));
                        }
                    }
                }
            },
            Kind::Small => {
                for (name, _, arm) in &spec.small {
                    let mut vals: Vec<Option<Val>> = vec![];
                    match arm {
                        SmallArm::Zero => vals.push(None),
                        SmallArm::Dur { .. } => int_sweep(32, false).into_iter().for_each(|v| vals.push(Some(Val::U(v)))),
                        SmallArm::Bool => vals.extend([Some(Val::U(0)), Some(Val::U(1))]),
                        SmallArm::Enum(e) => spec.enums[e].iter().for_each(|(n, _)| vals.push(Some(Val::E(n.clone())))),
                        SmallArm::Flags(fl) => {
                            let t = &spec.flags[fl];
                            vals.push(Some(Val::S(vec![])));
                            vals.push(Some(Val::S(t.iter().map(|x| x.0.clone()).collect())));
                            t.iter().for_each(|(n, _)| vals.push(Some(Val::S(vec![n.clone()]))));
                            if let Some(vs) = spec.values.get(fl) {
                                vs.iter().for_each(|(n, _)| vals.push(Some(Val::V(n.clone()))));
                            }
                        },
                    }
                    for v in vals {
                        let mut m = base.clone();
                        corpus::set(&mut m, "SubT", Val::E(name.clone()));
                        let _ = m.remove("UVal");
                        if let Some(v) = v {
                            corpus::set(&mut m, "UVal", v);
                        }
                        out.push((format!("UVal[{name}]"), m));
                    }
                }
            },
            Kind::Cim => {
                for arm in &spec.cim {
                    let subs: Vec<Option<String>> = if arm.sub.is_empty() { vec![None] } else { arm.sub.iter().map(|x| Some(x.0.clone())).collect() };
                    for s in subs {
                        for sel in if arm.seltype { vec![0u64, 1, 0x7f, 0xff] } else { vec![0] } {
                            let mut m = base.clone();
                            corpus::set(&mut m, "Mode", Val::E(arm.name.clone()));
                            let _ = m.remove("SubMode");
                            let _ = m.remove("SelType");
                            if let Some(s) = &s {
                                corpus::set(&mut m, "SubMode", Val::E(s.clone()));
                            }
                            if arm.seltype {
                                corpus::set(&mut m, "SelType", Val::U(sel));
                            }
                            out.push((format!("Mode[{}]", arm.name), m));
                        }
                    }
                }
            },
            _ => {},
        }
    }
    if lay.name == "MSO" {
        if let Some(Val::T(t)) = base.get("Msg") {
            for ts in 0..=t.chars().count() {
                let mut m = base.clone();
                corpus::set(&mut m, "TextStart", Val::U(ts as u64));
                out.push(("TextStart".into(), m));
            }
        }
    }
    out
}

/// Compare one assignment in both directions and both modes.
pub fn check_assignment(c: &Corpus, lay: &Layout, fm: &FieldMap, label: &str, p: &mut Part) {
    let spec = &c.spec;
    p.evaluations += 1;
    let typed = match guarded(|| bind::from_fields(spec, lay, fm)) {
        Ok(Ok(t)) => t,
        Ok(Err(e)) => {
            p.count("binding_gaps", 1);
            p.violation(
                format!("C02/{}/no-typed-counterpart", lay.name),
                format!("{}: a value the specification defines has no typed counterpart: {e}", lay.name),
                json!({"kind": lay.name, "fields": json_of(fm)}),
            );
            return;
        },
        Err(pn) => {
            p.violation(format!("C02/{}/binding-panic", lay.name), format!("constructing the typed packet panicked: {pn}"), json!({"kind": lay.name, "fields": json_of(fm)}));
            return;
        },
    };
    let typed_dbg = corpus::norm_debug(&typed);
    for compressed in MODES {
        let img = spec.encode(lay, fm, compressed, &ascii_text_enc);
        if img.representable.is_err() {
            p.count("not_representable_in_mode", 1);
            continue;
        }
        p.distinct(&(compressed, &img.frame));
        let replay = json!({"kind": lay.name, "mode": mode_name(compressed), "perturbed": label, "fields": json_of(fm), "reference_frame": hex(&img.frame)});
        // typed -> bytes (every few packets right after an encode that fails on this thread - a packet too large for the
        // uncompressed mode, refused or aborted: the image must not depend on what was attempted before)
        if p.evaluations % 5 == 0 {
            let big = insim::Packet::Axm(insim::insim::Axm { info: vec![Default::default(); 40], ..Default::default() });
            if matches!(real_encode(&big, false), Enc::Ok(_)) {
                p.count("oversize_packet_unexpectedly_encoded", 1);
            }
        }
        match real_encode(&typed, compressed) {
            Enc::Ok(b) => {
                if b != img.frame {
                    let at = b.iter().zip(img.frame.iter()).position(|(x, y)| x != y).unwrap_or(b.len().min(img.frame.len()));
                    let field = spec.field_at(&img, at);
                    p.violation(
                        format!("C02/{}/{}/encode", lay.name, field),
                        format!(
                            "{} {}: encoder output differs from the specification at offset {at} (field {field}): got {} expected {} (len {} vs {})",
                            lay.name,
                            mode_name(compressed),
                            hex(&b[at.min(b.len())..(at + 4).min(b.len())]),
                            hex(&img.frame[at.min(img.frame.len())..(at + 4).min(img.frame.len())]),
                            b.len(),
                            img.frame.len()
                        ),
                        replay.clone(),
                    );
                }
            },
            Enc::Err(e) => p.violation(
                format!("C02/{}/encode-refused", lay.name),
                format!("{} {}: a specification-conformant packet is refused by the encoder: {e}", lay.name, mode_name(compressed)),
                replay.clone(),
            ),
            Enc::Panic(pn) => p.violation(
                format!("C02/{}/encode-panic", lay.name),
                format!("{} {}: encoding a specification-conformant packet panicked: {pn}", lay.name, mode_name(compressed)),
                replay.clone(),
            ),
        }
        // bytes -> typed
        match real_decode(&img.frame, compressed) {
            Dec::Packet(q, left) => {
                let qd = corpus::norm_debug(&q);
                if left != 0 {
                    p.violation(format!("C02/{}/decode-leftover", lay.name), format!("{} {}: {left} bytes of the frame were not consumed", lay.name, mode_name(compressed)), replay.clone());
                }
                if qd != typed_dbg {
                    let field = debug_diff_field(&typed_dbg, &qd);
                    p.violation(
                        format!("C02/{}/{}/decode", lay.name, field),
                        format!("{} {}: decoding the specification's frame gives {} where the frame carries {}", lay.name, mode_name(compressed), clip(&qd), clip(&typed_dbg)),
                        replay.clone(),
                    );
                }
            },
            Dec::NeedMore => p.violation(format!("C02/{}/decode-needmore", lay.name), format!("{} {}: complete specification frame reported as incomplete", lay.name, mode_name(compressed)), replay.clone()),
            Dec::Err(e, _) => p.violation(
                format!("C02/{}/decode-error", lay.name),
                format!("{} {}: the specification's frame is rejected: {e}", lay.name, mode_name(compressed)),
                replay.clone(),
            ),
            Dec::Panic(pn) => p.violation(format!("C02/{}/decode-panic", lay.name), format!("{} {}: decoding panicked: {pn}", lay.name, mode_name(compressed)), replay.clone()),
        }
    }
}

fn clip(s: &str) -> String {
    if s.len() > 300 {
        format!("{}…", &s[..s.char_indices().nth(300).map(|x| x.0).unwrap_or(s.len())])
    } else {
        s.to_string()
    }
}

pub fn run(ctx: &mut Ctx) -> (&'static str, String, bool) {
    let c = match Corpus::load() {
        Ok(c) => c,
        Err(e) => {
            ctx.inconclusive(format!("cannot load the reference specification: {e}"));
            return ("exploration", "spec missing".into(), false);
        },
    };
    let thorough = ctx.tier == crate::ctx::Tier::Thorough;
    let bases = ctx.tier.pick(6u64, 20u64);
    let randoms = ctx.tier.pick(800u64, 20_000u64);
    let base_rng = ctx.rng.fork(2);
    let c = &c;
    let results: Vec<(Part, String, usize, BTreeSet<String>)> = c
        .kinds()
        .par_iter()
        .enumerate()
        .map(|(ki, lay)| {
            let mut p = Part::new();
            let mut r = base_rng.fork(ki as u64);
            let g = c.gen();
            let o = GenOpts { text: TextMode::AsciiPlacement, max_list: Some(3), boundary: 0, hostile: false };
            let mut perturbed: BTreeSet<String> = BTreeSet::new();
            for _ in 0..bases {
                let base = g.packet(&mut r, lay, &o);
                check_assignment(c, lay, &base, "base", &mut p);
                for (label, fm) in sweeps(c, lay, &base, &mut r, thorough) {
                    let _ = perturbed.insert(label.clone());
                    check_assignment(c, lay, &fm, &label, &mut p);
                }
            }
            let o2 = GenOpts { text: TextMode::AsciiPlacement, max_list: None, boundary: 6, hostile: false };
            for i in 0..randoms {
                let fm = g.packet(&mut r, lay, &o2);
                check_assignment(c, lay, &fm, "random-joint", &mut p);
                if i == 0 {
                    let img = c.spec.encode(lay, &fm, true, &ascii_text_enc);
                    p.sample(json!({"kind": lay.name, "fields": json_of(&fm), "reference_frame_compressed": hex(&img.frame)}));
                }
            }
            (p, lay.name.clone(), lay.fields.len(), perturbed)
        })
        .collect();
    let mut kinds = 0;
    let mut fields_total = 0usize;
    let mut perturbed_total = 0usize;
    for (p, _name, nf, pert) in results {
        kinds += 1;
        fields_total += nf;
        perturbed_total += pert.len();
        ctx.merge(p);
    }
    ctx.extra("kinds_covered", json!(kinds));
    ctx.extra("spec_fields", json!(fields_total));
    ctx.extra("distinct_perturbation_targets", json!(perturbed_total));
    ctx.extra("enumerants_pinned", json!(c.spec.enums.values().map(|v| v.len()).sum::<usize>()));
    ctx.extra("flag_bits_pinned", json!(c.spec.flags.values().map(|v| v.len()).sum::<usize>()));
    ctx.extra(
        "unpinned",
        json!(["octet order of NCI.IPAddress and IPB.BanIPs", "time unit of SMALL_SSP / SMALL_SSG", "time unit of RIP.CTime / RIP.TTime", "signedness of CarContact.Steer / AccelF / AccelR"]),
    );
    if kinds != 73 {
        ctx.inconclusive(format!("the specification table lists {kinds} packet kinds, expected 73"));
    }
    // ---- IS_BTN with a type-in caption: Text = NUL, caption, NUL, button text (InSim.txt, "TypeIn"). Encode direction
    //      only: a caption is something the application sends, and decoding any text stops at the first NUL (C11) -----
    {
        let mut p = Part::new();
        let lay = c.spec.packet("BTN");
        let mut r = base_rng.fork(4545);
        for (cap, txt) in [("Lap count", "Set laps"), ("x", ""), ("Enter a name please", "^1Name"), ("abc", "abcd"), ("abcd", "abc")] {
            let o = GenOpts { text: TextMode::AsciiPlacement, max_list: Some(0), boundary: 0, hostile: false };
            let mut fm = c.gen().packet(&mut r, lay, &o);
            corpus::set(&mut fm, "Text", Val::T(format!("\0{cap}\0{txt}")));
            corpus::set(&mut fm, "TypeIn", Val::U(1 + r.below(96)));
            p.evaluations += 1;
            let typed = match guarded(|| bind::from_fields(&c.spec, lay, &fm)) {
                Ok(Ok(t)) => t,
                _ => {
                    p.count("binding_gaps", 1);
                    continue;
                },
            };
            for compressed in MODES {
                let img = c.spec.encode(lay, &fm, compressed, &ascii_text_enc);
                if img.representable.is_err() {
                    continue;
                }
                p.distinct(&(compressed, &img.frame));
                match real_encode(&typed, compressed) {
                    Enc::Ok(b) if b == img.frame => {},
                    other => p.violation(
                        "C02/BTN/Text/caption-encode",
                        format!(
                            "BTN {} with caption {:?} and text {:?}: encoder gives {} expected {}",
                            mode_name(compressed),
                            cap,
                            txt,
                            match &other {
                                Enc::Ok(b) => hex(b),
                                Enc::Err(e) => format!("error {e}"),
                                Enc::Panic(e) => format!("panic {e}"),
                            },
                            hex(&img.frame)
                        ),
                        json!({"caption": cap, "text": txt, "reference_frame": hex(&img.frame)}),
                    ),
                }
            }
        }
        ctx.merge(p);
    }
    // ---- IS_MSO as LFS sends it: "name : text" where the name may carry colour codes, escaped carets and codepage
    //      markers, TextStart = the wire offset at which the typed text starts. The typed `textstart` is documented as the
    //      index of that text in `msg`, so msg[..textstart] must be the decoded name part, whatever it is made of -----------
    {
        let mut p = Part::new();
        let names: [&[u8]; 14] = [b"joe", b"^Ljoe", b"^Ejoe^L", b"^7joe^9", b"j^^oe", b"^Cjoe", b"^J\x83\x5e", b"^E\xec", b"^Ljoe^8", b"^T^Ljoe", b"^1a^2b^3c", b"^J\x82\xa0^Lx", b"^Hjoe", b"[^Gab] ^Lcd"];
        let seps: [&[u8]; 3] = [b" ^7: ^8", b": ", b""];
        let texts: [&[u8]; 6] = [b"hello", b"^Lhi", b"^J\x82\xa0", b"", b"^^", b"a^Eb\xec"];
        for name in names {
            for sep in seps {
                for text in texts {
                    let pfx: Vec<u8> = [name, sep].concat();
                    let raw: Vec<u8> = [&pfx[..], text].concat();
                    let expect_pfx = guarded(|| insim_core::string::codepages::to_lossy_string(&pfx).to_string());
                    let expect_all = guarded(|| insim_core::string::codepages::to_lossy_string(&raw).to_string());
                    let (Ok(expect_pfx), Ok(expect_all)) = (expect_pfx, expect_all) else { continue };
                    if !expect_all.starts_with(&expect_pfx) || expect_pfx.len() > 255 {
                        continue;
                    }
                    for compressed in MODES {
                        let mut body = vec![0u8, 11, 0, 0, 3, 5, 1, pfx.len() as u8];
                        body.extend_from_slice(&raw);
                        body.push(0);
                        while body.len() % 4 != 0 {
                            body.push(0);
                        }
                        body[0] = if compressed { (body.len() / 4) as u8 } else { body.len() as u8 };
                        p.evaluations += 1;
                        p.distinct(&(compressed, &body));
                        match real_decode(&body, compressed) {
                            Dec::Packet(insim::Packet::Mso(m), _) => {
                                if m.msg != expect_all || m.textstart as usize != expect_pfx.len() {
                                    p.violation(
                                        "C02/MSO/TextStart/decode-offset",
                                        format!("MSO {} frame {}: Msg decodes to {:?} with textstart {}, but the {} wire bytes before the typed text decode to {:?} ({} bytes) and the whole message to {:?}", mode_name(compressed), hex(&body), m.msg, m.textstart, pfx.len(), expect_pfx, expect_pfx.len(), expect_all),
                                        json!({"frame": hex(&body), "mode": mode_name(compressed)}),
                                    );
                                }
                            },
                            Dec::Packet(other, _) => p.violation("C02/MSO/TextStart/decode-offset", format!("MSO frame {} decodes to {:?}", hex(&body), other), json!({"frame": hex(&body)})),
                            Dec::Err(e, _) => p.violation("C02/MSO/decode-error", format!("MSO {} frame {} as LFS sends it is rejected: {e}", mode_name(compressed), hex(&body)), json!({"frame": hex(&body)})),
                            Dec::Panic(e) => p.violation("C02/MSO/decode-panic", format!("MSO frame {} panics: {e}", hex(&body)), json!({"frame": hex(&body)})),
                            Dec::NeedMore => p.violation("C02/MSO/decode-error", format!("MSO {} frame {} is complete but the decoder asks for more", mode_name(compressed), hex(&body)), json!({"frame": hex(&body)})),
                        }
                    }
                }
            }
        }
        ctx.merge(p);
    }
    ctx.assume("ref/insim_v9.spec is a faithful transcription of InSim.txt v9 and the InSim-Relay document (not available in the sandbox)");
    ctx.assume("text in C02 is ASCII shorter than its field (variable fields: length not a multiple of 4): placement only; terminators are C11's, tables C10's");
    (
        "exploration",
        "per kind: sentinel base assignments with every field perturbed one at a time (every enumerant, every single flag bit, none/all, boundary integers / all 256 byte values in thorough, every nibble value, list counts 0..max, every SMALL/CIM arm) + random joint assignments; each checked typed->bytes and bytes->typed in both size modes; distinct = distinct (mode, reference frame)".into(),
        false,
    )
}
