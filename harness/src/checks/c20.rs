//! C20 — The WebSocket relay transport carries the same byte stream as TCP (real loopback tungstenite server).

use std::time::Duration;

use futures_util::{SinkExt, StreamExt};
use insim::net::{tokio_impl, Codec};
use serde_json::json;
use tokio::{io::AsyncReadExt, net::TcpListener};
use tokio_tungstenite::tungstenite::Message;

use crate::{
    corpus::{mode_name, real_decode, real_encode, Corpus, Dec, Enc, MODES},
    ctx::{hex, Ctx, Part, Tier},
    refspec::{limit, GenOpts, TextMode},
    rng::Rng,
    sess::{expected_results, short},
    transport::{classify, mode_of, ReadResult},
};

use super::c05::make_stream;

#[derive(Clone, Debug)]
enum Msg {
    Bin(Vec<u8>),
    Text(String),
    Ping(Vec<u8>),
    Pong(Vec<u8>),
}

#[derive(Clone, Copy, Debug, PartialEq)]
enum Close {
    /// proper closing handshake
    Frame,
    /// TCP connection dropped without a close frame
    Abrupt,
    /// closing handshake whose close frame carries a status code and a reason (1000 normal, 1001 going away, 1008
    /// policy, 1011 error, 1012 restart, 1013 try again, 4000 application defined)
    Coded(u16),
}

const WATCHDOG: Duration = Duration::from_secs(60);

/// Split `stream` into binary messages in a given style and interleave non-binary messages.
fn partition(r: &mut Rng, stream: &[u8], compressed: bool, style: u64) -> Vec<Msg> {
    let (frames, _) = crate::transport::ref_frames(stream, compressed);
    let mut out = vec![];
    let mut pos = 0usize;
    let mut fi = 0usize;
    let mut bounds = vec![];
    let mut acc = 0;
    for f in &frames {
        acc += f.len();
        bounds.push(acc);
    }
    while pos < stream.len() {
        while fi < bounds.len() && bounds[fi] <= pos {
            fi += 1;
        }
        let to_boundary = bounds.get(fi).map(|b| b - pos).unwrap_or(stream.len() - pos);
        let k = match style {
            0 => to_boundary,                                  // one frame per message
            1 => {
                // several frames per message
                let n = 1 + r.usize_below(6);
                bounds.get(fi + n).filter(|b| **b > pos).map(|b| b - pos).unwrap_or(stream.len() - pos).max(1)
            },
            2 => 1 + r.usize_below(to_boundary.max(2) * 2),     // frames split across messages anywhere
            3 => 1021 + r.usize_below(64 * 1024 - 1021),        // larger than the adaptor's 1020-byte buffer
            4 => 1 + r.usize_below(3),                          // tiny messages
            _ => {
                if r.chance(1, 2) {
                    to_boundary.saturating_sub(1).max(1)
                } else {
                    to_boundary + 1
                }
            },
        };
        let k = k.min(stream.len() - pos);
        if r.chance(1, 12) {
            out.push(Msg::Bin(vec![])); // empty binary message
        }
        if r.chance(1, 6) {
            out.push(match r.below(3) {
                0 => Msg::Text("hello ^Lrelay".into()),
                1 => Msg::Ping(vec![1, 2, 3]),
                _ => Msg::Pong(vec![9]),
            });
        }
        out.push(Msg::Bin(stream[pos..pos + k].to_vec()));
        pos += k;
    }
    out
}

struct SessionResult {
    results: Vec<ReadResult>,
    end: Option<ReadResult>,
    end_again: Option<ReadResult>,
}

async fn serve(listener: TcpListener, msgs: Vec<Msg>, close: Close, collect_writes: usize, drain_before_abrupt_close: bool) -> Vec<Message> {
    let Ok((tcp, _)) = listener.accept().await else { return vec![] };
    let Ok(mut ws) = tokio_tungstenite::accept_async(tcp).await else { return vec![] };
    for m in msgs {
        let msg = match m {
            Msg::Bin(b) => Message::Binary(b),
            Msg::Text(t) => Message::Text(t),
            Msg::Ping(b) => Message::Ping(b),
            Msg::Pong(b) => Message::Pong(b),
        };
        if ws.send(msg).await.is_err() {
            return vec![];
        }
    }
    let mut got = vec![];
    while got.len() < collect_writes {
        match tokio::time::timeout(Duration::from_secs(20), ws.next()).await {
            Ok(Some(Ok(m))) => {
                if !matches!(m, Message::Pong(_) | Message::Ping(_)) {
                    got.push(m);
                }
            },
            _ => break,
        }
    }
    match close {
        Close::Frame | Close::Coded(_) => {
            let frame = match close {
                Close::Coded(code) => Some(tokio_tungstenite::tungstenite::protocol::CloseFrame { code: code.into(), reason: "relay says goodbye".into() }),
                _ => None,
            };
            let _ = ws.close(frame).await;
            // drive the closing handshake until the client answers or goes away
            let _ = tokio::time::timeout(Duration::from_secs(5), async { while let Some(Ok(_)) = ws.next().await {} }).await;
        },
        Close::Abrupt => {
            let _ = ws.flush().await;
            // keep consuming what the client still sends (its automatic pongs for pings it has yet to read) until it
            // falls silent: dropping the socket with unread data, or while the client is about to write, turns the
            // closure into a TCP reset / EPIPE on the client's own write - TCP semantics, not the adaptor's
            // (the close-race sessions send no pings and no keep-alives, so the client never writes: they drop at once)
            while drain_before_abrupt_close {
                match tokio::time::timeout(Duration::from_millis(250), ws.next()).await {
                    Ok(Some(Ok(m))) => {
                        if let Message::Binary(_) = m {
                            got.push(m);
                        }
                    },
                    _ => break,
                }
            }
            drop(ws);
        },
    }
    got
}

#[allow(clippy::too_many_arguments)]
fn run_session(c: &Corpus, r: &mut Rng, compressed: bool, style: u64, close: Close, target: usize, cut_last: bool, p: &mut Part) -> Result<(), String> {
    let rt = tokio::runtime::Builder::new_current_thread().enable_all().build().map_err(|e| e.to_string())?;
    let mut stream = make_stream(c, r, compressed, target, false);
    let mut cut_tail = 0usize;
    if cut_last {
        // the stream ends in the middle of a frame: that frame must never be delivered
        let (frames, _) = crate::transport::ref_frames(&stream, compressed);
        if let Some(last) = frames.last() {
            cut_tail = 1 + r.usize_below(last.len() - 1);
            let n = stream.len() - cut_tail;
            stream.truncate(n);
        }
    }
    let msgs = partition(r, &stream, compressed, style);
    let nmsgs = msgs.len();
    // packets the client will write after reading everything it can
    let mut to_write = vec![];
    for _ in 0..6 {
        let lay = r.pick(c.kinds());
        let o = GenOpts { text: TextMode::Ascii, max_list: Some(10), boundary: 4, hostile: false };
        if let Ok((_, pk)) = c.packet(r, lay, &o) {
            if let Enc::Ok(e) = real_encode(&pk, compressed) {
                if e.len() <= limit(compressed) {
                    to_write.push((pk, e));
                }
            }
        }
    }
    let (expected, _) = expected_results(&stream, compressed);
    let label = format!("{}-style{style}-{:?}{}", mode_name(compressed), close, if cut_last { "-cut" } else { "" });
    let n_expected = expected.len();
    let n_replies = crate::transport::ref_frames(&stream, compressed).0.iter().filter(|f| f.len() == 4 && f[1] == 3 && f[2] == 0 && f[3] == 0).count();
    let reply: Vec<u8> = if compressed { vec![1, 3, 0, 0] } else { vec![4, 3, 0, 0] };
    let outcome: Result<(SessionResult, Vec<Message>), String> = rt.block_on(async {
        let listener = TcpListener::bind("127.0.0.1:0").await.map_err(|e| e.to_string())?;
        let addr = listener.local_addr().map_err(|e| e.to_string())?;
        // the server first sends everything; it collects the client's writes before closing
        // the client answers every keep-alive in the stream with one binary message; the server reads those
        // and the client's own writes before it closes, so that no unread data turns the close into a TCP reset
        let nwrites = to_write.len() + n_replies;
        let server = tokio::spawn(serve(listener, msgs, close, nwrites, true));
        let (ws, _) = tokio::time::timeout(WATCHDOG, tokio_tungstenite::connect_async(format!("ws://{addr}/connect"))).await.map_err(|_| "connect watchdog".to_string())?.map_err(|e| e.to_string())?;
        let mut framed = tokio_impl::Framed::new(Box::new(tokio_impl::WebsocketStream::from(ws)), Codec::new(mode_of(compressed)));
        let mut res = SessionResult { results: vec![], end: None, end_again: None };
        // read the expected number of results, then write, then read to the end
        for _ in 0..n_expected {
            let r = tokio::time::timeout(WATCHDOG, framed.read()).await.map_err(|_| format!("read watchdog after {} results", res.results.len()))?;
            let r = classify(r);
            if matches!(r, ReadResult::Disconnected | ReadResult::Io(_) | ReadResult::Other(_)) {
                res.end = Some(r);
                break;
            }
            res.results.push(r);
        }
        if res.end.is_none() {
            for (pk, _) in &to_write {
                tokio::time::timeout(WATCHDOG, framed.write(pk.clone())).await.map_err(|_| "write watchdog".to_string())?.map_err(|e| format!("write failed: {e}"))?;
            }
            // now the server closes: anything further is the end of the session
            loop {
                let r = tokio::time::timeout(WATCHDOG, framed.read()).await.map_err(|_| "read watchdog while waiting for the close".to_string())?;
                let r = classify(r);
                if matches!(r, ReadResult::Disconnected | ReadResult::Io(_) | ReadResult::Other(_) | ReadResult::Timeout) {
                    res.end = Some(r);
                    break;
                }
                res.results.push(r);
                if res.results.len() > n_expected + 4 {
                    break;
                }
            }
            let again = tokio::time::timeout(Duration::from_secs(5), framed.read()).await.ok().map(classify);
            res.end_again = again;
        }
        let got = tokio::time::timeout(WATCHDOG, server).await.map_err(|_| "server watchdog".to_string())?.map_err(|e| e.to_string())?;
        Ok((res, got))
    });
    let (res, server_got) = outcome.map_err(|e| format!("{label}: {e}"))?;
    p.evaluations += 1;
    p.distinct(&(label.clone(), &stream));
    let replay = json!({"label": label, "mode": mode_name(compressed), "style": style, "close": format!("{:?}", close), "stream_len": stream.len(), "messages": nmsgs, "cut_tail": cut_tail, "stream_head": hex(&stream[..stream.len().min(256)])});
    if res.results != expected {
        let at = res.results.iter().zip(expected.iter()).position(|(a, b)| a != b).unwrap_or(res.results.len().min(expected.len()));
        let what = if res.results.len() > expected.len() { "extra-or-fabricated-packet" } else if res.results.len() < expected.len() { "packets-missing" } else { "packet-differs" };
        p.violation(
            format!("C20/{what}/style{style}"),
            format!(
                "{label}: {} frames in the binary payloads, {} results; first difference at #{at}: {} vs {} (session ended with {:?})",
                expected.len(),
                res.results.len(),
                res.results.get(at).map(short).unwrap_or_else(|| "<none>".into()),
                expected.get(at).map(short).unwrap_or_else(|| "<none>".into()),
                res.end
            ),
            replay.clone(),
        );
    }
    match (&res.end, close) {
        (Some(ReadResult::Disconnected), _) => {},
        (other, cl) => p.violation(
            format!("C20/closure-not-disconnected/{:?}", cl),
            format!("{label}: the server closed ({:?}) but read returned {:?} instead of Disconnected", cl, other),
            replay.clone(),
        ),
    }
    if let Some(r) = &res.end_again {
        if !matches!(r, ReadResult::Disconnected) {
            p.violation(format!("C20/closure-not-sticky/{:?}", close), format!("{label}: a further read after the closure returned {:?}", r), replay.clone());
        }
    }
    // writes: exactly one binary message per packet, holding exactly its frame
    let bins: Vec<&Vec<u8>> = server_got.iter().filter_map(|m| if let Message::Binary(b) = m { Some(b) } else { None }).collect();
    let non_bin = server_got.iter().filter(|m| !matches!(m, Message::Binary(_) | Message::Close(_))).count();
    if res.results.len() == expected.len() {
        let mut want: Vec<&Vec<u8>> = vec![];
        for _ in 0..n_replies {
            want.push(&reply);
        }
        for (_, e) in &to_write {
            want.push(e);
        }
        if bins != want || non_bin != 0 {
            p.violation(
                "C20/written-messages-differ",
                format!(
                    "{label}: {} keep-alive replies + {} packets written, server received {} binary messages ({} non-binary); sizes {:?} vs expected {:?}",
                    n_replies,
                    to_write.len(),
                    bins.len(),
                    non_bin,
                    bins.iter().map(|b| b.len()).collect::<Vec<_>>(),
                    want.iter().map(|w| w.len()).collect::<Vec<_>>()
                ),
                replay,
            );
        }
    }
    Ok(())
}

/// The peer sends its last packets and closes at once, before the client has read anything: everything
/// sent before the closure must still be delivered, then Disconnected.
fn run_close_race(c: &Corpus, r: &mut Rng, compressed: bool, close: Close, per_message: usize, p: &mut Part) -> Result<(), String> {
    let rt = tokio::runtime::Builder::new_current_thread().enable_all().build().map_err(|e| e.to_string())?;
    let target = 200 + r.usize_below(1500);
    let raw = make_stream(c, r, compressed, target, false);
    // no keep-alives (the client would have to answer on a closed connection) and no ping/text messages
    let (frames, _) = crate::transport::ref_frames(&raw, compressed);
    let frames: Vec<Vec<u8>> = frames.into_iter().filter(|f| !(f.len() == 4 && f[1] == 3 && f[2] == 0 && f[3] == 0)).map(|f| f.to_vec()).collect();
    let stream: Vec<u8> = frames.concat();
    let msgs: Vec<Msg> = frames.chunks(per_message.max(1)).map(|ch| Msg::Bin(ch.concat())).collect();
    let (expected, _) = expected_results(&stream, compressed);
    let label = format!("close-race-{}-{:?}-{per_message}per", mode_name(compressed), close);
    let out: Result<(Vec<ReadResult>, Option<ReadResult>), String> = rt.block_on(async {
        let listener = TcpListener::bind("127.0.0.1:0").await.map_err(|e| e.to_string())?;
        let addr = listener.local_addr().map_err(|e| e.to_string())?;
        let server = tokio::spawn(serve(listener, msgs, close, 0, false));
        let (ws, _) = tokio::time::timeout(WATCHDOG, tokio_tungstenite::connect_async(format!("ws://{addr}/connect"))).await.map_err(|_| "connect watchdog".to_string())?.map_err(|e| e.to_string())?;
        let mut framed = tokio_impl::Framed::new(Box::new(tokio_impl::WebsocketStream::from(ws)), Codec::new(mode_of(compressed)));
        // give the server time to finish sending and to close before the first read; if it has not closed by
        // then the session merely degrades to an ordinary one (less coverage, never a wrong verdict)
        tokio::time::sleep(Duration::from_millis(120)).await;
        let mut results = vec![];
        let mut end = None;
        for _ in 0..expected.len() + 3 {
            let r = tokio::time::timeout(WATCHDOG, framed.read()).await.map_err(|_| "read watchdog".to_string())?;
            let r = classify(r);
            if matches!(r, ReadResult::Disconnected | ReadResult::Io(_) | ReadResult::Other(_) | ReadResult::Timeout) {
                end = Some(r);
                break;
            }
            results.push(r);
        }
        let _ = tokio::time::timeout(Duration::from_secs(8), server).await;
        Ok((results, end))
    });
    let (results, end) = out.map_err(|e| format!("{label}: {e}"))?;
    p.evaluations += 1;
    p.distinct(&(label.clone(), &stream));
    let replay = json!({"label": label, "mode": mode_name(compressed), "close": format!("{:?}", close), "frames": expected.len(), "stream_head": hex(&stream[..stream.len().min(128)])});
    if results != expected {
        p.violation(
            format!("C20/data-before-closure-lost/{:?}", close),
            format!("{label}: the peer sent {} frames and then closed; the client received {} results before {:?}", expected.len(), results.len(), end),
            replay.clone(),
        );
    }
    if !matches!(end, Some(ReadResult::Disconnected)) {
        p.violation(format!("C20/closure-not-disconnected/{:?}", close), format!("{label}: closure surfaced as {:?}", end), replay);
    }
    Ok(())
}

/// Writes under back-pressure: the peer stops reading, the kernel buffers (made small) fill up, the sink's
/// flush returns Pending; every packet must still arrive exactly once, in order, one binary message each.
pub fn run_backpressure_writes(c: &Corpus, r: &mut Rng, compressed: bool, nframes: usize, p: &mut Part, sig_prefix: &str) -> Result<(), String> {
    use tokio::net::TcpSocket;
    let rt = tokio::runtime::Builder::new_current_thread().enable_all().build().map_err(|e| e.to_string())?;
    let mut to_write = vec![];
    while to_write.len() < nframes {
        let lay = if r.chance(1, 2) { c.spec.packet("MSL") } else { r.pick(c.kinds()) };
        let o = GenOpts { text: TextMode::Ascii, max_list: Some(8), boundary: 4, hostile: false };
        if let Ok((_, pk)) = c.packet(r, lay, &o) {
            if let Enc::Ok(e) = real_encode(&pk, compressed) {
                if e.len() <= limit(compressed) {
                    to_write.push((pk, e));
                }
            }
        }
    }
    let label = format!("backpressure-{}-{nframes}frames", mode_name(compressed));
    let n = to_write.len();
    let packets: Vec<insim::Packet> = to_write.iter().map(|x| x.0.clone()).collect();
    let out: Result<Vec<Vec<u8>>, String> = rt.block_on(async {
        let lsock = TcpSocket::new_v4().map_err(|e| e.to_string())?;
        let _ = lsock.set_recv_buffer_size(4096);
        lsock.bind("127.0.0.1:0".parse().unwrap()).map_err(|e| e.to_string())?;
        let listener = lsock.listen(8).map_err(|e| e.to_string())?;
        let addr = listener.local_addr().map_err(|e| e.to_string())?;
        let server = tokio::spawn(async move {
            let Ok((tcp, _)) = listener.accept().await else { return vec![] };
            let Ok(mut ws) = tokio_tungstenite::accept_async(tcp).await else { return vec![] };
            let mut got: Vec<Vec<u8>> = vec![];
            // stall first, then read in bursts with pauses
            tokio::time::sleep(Duration::from_millis(250)).await;
            while got.len() < n {
                match tokio::time::timeout(Duration::from_secs(30), ws.next()).await {
                    Ok(Some(Ok(Message::Binary(b)))) => {
                        got.push(b);
                        if got.len() % 1000 == 0 {
                            tokio::time::sleep(Duration::from_millis(40)).await;
                        }
                    },
                    Ok(Some(Ok(_))) => {},
                    _ => break,
                }
            }
            // anything beyond the expected number of messages?
            if let Ok(Some(Ok(Message::Binary(b)))) = tokio::time::timeout(Duration::from_millis(150), ws.next()).await {
                got.push(b);
            }
            got
        });
        let csock = TcpSocket::new_v4().map_err(|e| e.to_string())?;
        let _ = csock.set_send_buffer_size(4096);
        let tcp = tokio::time::timeout(WATCHDOG, csock.connect(addr)).await.map_err(|_| "connect watchdog".to_string())?.map_err(|e| e.to_string())?;
        let (ws, _) = tokio::time::timeout(WATCHDOG, tokio_tungstenite::client_async(format!("ws://{addr}/connect"), tokio_tungstenite::MaybeTlsStream::Plain(tcp)))
            .await
            .map_err(|_| "ws handshake watchdog".to_string())?
            .map_err(|e| e.to_string())?;
        let mut framed = tokio_impl::Framed::new(Box::new(tokio_impl::WebsocketStream::from(ws)), Codec::new(mode_of(compressed)));
        for pk in packets {
            tokio::time::timeout(WATCHDOG, framed.write(pk)).await.map_err(|_| "write watchdog".to_string())?.map_err(|e| format!("write failed: {e}"))?;
        }
        let got = tokio::time::timeout(WATCHDOG, server).await.map_err(|_| "server watchdog".to_string())?.map_err(|e| e.to_string())?;
        Ok(got)
    });
    let got = out.map_err(|e| format!("{label}: {e}"))?;
    p.evaluations += 1;
    p.distinct(&(label.clone(), n));
    let want: Vec<&Vec<u8>> = to_write.iter().map(|x| &x.1).collect();
    if got.iter().collect::<Vec<_>>() != want {
        let at = got.iter().zip(want.iter()).position(|(a, b)| &a != b).unwrap_or(got.len().min(want.len()));
        let what = if got.len() > want.len() { "frame-duplicated-or-extra" } else if got.len() < want.len() { "frames-missing" } else { "frame-differs" };
        p.violation(
            format!("{sig_prefix}/websocket-backpressure/{what}"),
            format!("{label}: {n} packets written while the peer was not reading; the peer received {} binary messages, first difference at message #{at}", got.len()),
            json!({"label": label, "written": n, "received": got.len(), "first_difference": at}),
        );
    }
    Ok(())
}

/// A keep-alive arrives while the peer is not reading and the send path is full; the read that answers it is
/// cancelled (select!/timeout) while the reply is queued in the adaptor but not flushed. Once the peer reads again
/// and the client only calls read(), exactly one reply message must still leave - as it would over TCP.
pub fn run_backpressure_keepalive(compressed: bool, cancel_after_ms: u64, p: &mut Part) -> Result<(), String> {
    use insim::{
        identifiers::RequestId,
        insim::{Tiny, TinyType},
        Packet,
    };
    use tokio::net::TcpSocket;
    let rt = tokio::runtime::Builder::new_current_thread().enable_all().build().map_err(|e| e.to_string())?;
    let label = format!("backpressure-keepalive-{}-cancel{cancel_after_ms}ms", mode_name(compressed));
    let reply: Vec<u8> = if compressed { vec![1, 3, 0, 0] } else { vec![4, 3, 0, 0] };
    let reply2 = reply.clone();
    struct Out {
        flood: usize,
        first_read_cancelled: bool,
        second_read: ReadResult,
        server_got: Vec<Vec<u8>>,
    }
    let out: Result<Out, String> = rt.block_on(async {
        let lsock = TcpSocket::new_v4().map_err(|e| e.to_string())?;
        let _ = lsock.set_recv_buffer_size(4096);
        lsock.bind("127.0.0.1:0".parse().unwrap()).map_err(|e| e.to_string())?;
        let listener = lsock.listen(8).map_err(|e| e.to_string())?;
        let addr = listener.local_addr().map_err(|e| e.to_string())?;
        let (stalled_tx, stalled_rx) = tokio::sync::oneshot::channel::<()>();
        let (cancelled_tx, cancelled_rx) = tokio::sync::oneshot::channel::<()>();
        let server = tokio::spawn(async move {
            let Ok((tcp, _)) = listener.accept().await else { return vec![] };
            let Ok(mut ws) = tokio_tungstenite::accept_async(tcp).await else { return vec![] };
            // not reading: wait until the client's writes stall, then send the keep-alive
            if stalled_rx.await.is_err() {
                return vec![];
            }
            if ws.send(Message::Binary(reply2.clone())).await.is_err() {
                return vec![];
            }
            if cancelled_rx.await.is_err() {
                return vec![];
            }
            // now drain until the client has been silent for a while
            let mut got: Vec<Vec<u8>> = vec![];
            while let Ok(Some(Ok(m))) = tokio::time::timeout(Duration::from_millis(1500), ws.next()).await {
                if let Message::Binary(b) = m {
                    got.push(b);
                }
            }
            got
        });
        let csock = TcpSocket::new_v4().map_err(|e| e.to_string())?;
        let _ = csock.set_send_buffer_size(4096);
        let tcp = tokio::time::timeout(WATCHDOG, csock.connect(addr)).await.map_err(|_| "connect watchdog".to_string())?.map_err(|e| e.to_string())?;
        let (ws, _) = tokio::time::timeout(WATCHDOG, tokio_tungstenite::client_async(format!("ws://{addr}/connect"), tokio_tungstenite::MaybeTlsStream::Plain(tcp)))
            .await
            .map_err(|_| "ws handshake watchdog".to_string())?
            .map_err(|e| e.to_string())?;
        let mut framed = tokio_impl::Framed::new(Box::new(tokio_impl::WebsocketStream::from(ws)), Codec::new(mode_of(compressed)));
        // flood until a write does not complete
        let mut flood = 0usize;
        let mut stalled = false;
        while flood < 400_000 {
            let pk = Packet::Tiny(Tiny { reqi: RequestId(9), subt: TinyType::Ping });
            match tokio::time::timeout(Duration::from_millis(150), framed.write(pk)).await {
                Ok(Ok(())) => flood += 1,
                Ok(Err(e)) => return Err(format!("flood write failed: {e}")),
                Err(_) => {
                    stalled = true;
                    break;
                },
            }
        }
        if !stalled {
            return Err("NO-BACKPRESSURE".to_string());
        }
        let _ = stalled_tx.send(());
        // the read that decodes the keep-alive and queues the reply; cancelled while the reply cannot be flushed
        let first = tokio::time::timeout(Duration::from_millis(cancel_after_ms), framed.read()).await;
        let first_read_cancelled = first.is_err();
        let _ = cancelled_tx.send(());
        let second_read = if first_read_cancelled {
            match tokio::time::timeout(WATCHDOG, framed.read()).await {
                Ok(r) => classify(r),
                Err(_) => return Err("second read watchdog".to_string()),
            }
        } else {
            classify(first.unwrap())
        };
        // the application only waits from here on
        let _ = tokio::time::timeout(Duration::from_millis(800), framed.read()).await;
        let server_got = tokio::time::timeout(WATCHDOG, server).await.map_err(|_| "server watchdog".to_string())?.map_err(|e| e.to_string())?;
        Ok(Out { flood, first_read_cancelled, second_read, server_got })
    });
    if matches!(&out, Err(e) if e == "NO-BACKPRESSURE") {
        // the socket buffers of this machine swallowed 400 000 writes: the scenario cannot be set up here (counted, not judged)
        p.count("bp_not_reached", 1);
        return Ok(());
    }
    let o = out.map_err(|e| format!("{label}: {e}"))?;
    p.evaluations += 1;
    p.distinct(&label);
    p.count(if o.first_read_cancelled { "bp_keepalive_read_cancelled_in_flush" } else { "bp_keepalive_read_completed_at_once" }, 1);
    let replies = o.server_got.iter().filter(|m| **m == reply).count();
    let replay = json!({"label": label, "flood_writes": o.flood, "first_read_cancelled": o.first_read_cancelled, "second_read": format!("{:?}", o.second_read), "messages_drained": o.server_got.len(), "replies_seen": replies});
    if !matches!(&o.second_read, ReadResult::Packet(d) if d.contains("subt: None")) {
        p.violation("C20/websocket-backpressure/keepalive-not-delivered", format!("{label}: the keep-alive was not handed to the caller: {:?}", o.second_read), replay.clone());
    }
    if replies != 1 {
        p.violation(
            "C20/websocket-backpressure/keepalive-reply-count",
            format!("{label}: one keep-alive received under back-pressure (read cancelled in the flush: {}); after the peer drained {} messages it saw {replies} reply message(s) instead of exactly one", o.first_read_cancelled, o.server_got.len()),
            replay,
        );
    }
    Ok(())
}

/// Writes that are cancelled (select!/timeout) while the peer is not reading, then writes that complete once it reads
/// again: whatever reaches the peer must be one whole frame per binary message, in call order, without duplicates, and
/// every write that returned Ok must be among them.
pub fn run_backpressure_cancelled_writes(compressed: bool, extra_cancelled: usize, p: &mut Part) -> Result<(), String> {
    use insim::{identifiers::RequestId, insim::Msl, Packet};
    use tokio::net::TcpSocket;
    let rt = tokio::runtime::Builder::new_current_thread().enable_all().build().map_err(|e| e.to_string())?;
    let label = format!("backpressure-cancelled-writes-{}-{extra_cancelled}", mode_name(compressed));
    // near-maximum frames, each unique: IS_PLH with 250 (compressed, 1004 bytes) or 62 (uncompressed, 252 bytes) entries.
    // Big frames matter: tungstenite applies its own back-pressure only once ~128 KiB are queued inside it.
    let packet = |i: usize| -> Packet {
        let n = if compressed { 250usize } else { 62 };
        let mut f = vec![0u8, 66, 1 + (i % 250) as u8, n as u8];
        for k in 0..n {
            f.extend_from_slice(&[(i / 250 + k) as u8, 3, (i % 200) as u8, (k % 50) as u8]);
        }
        f[0] = if compressed { (f.len() / 4) as u8 } else { f.len() as u8 };
        match real_decode(&f, compressed) {
            Dec::Packet(q, _) => q,
            _ => Packet::Msl(Msl { reqi: RequestId(1 + (i % 250) as u8), msg: format!("{i:07} fallback"), ..Default::default() }),
        }
    };
    struct Out {
        frames: Vec<Vec<u8>>,
        completed: Vec<bool>,
        cancelled: usize,
        server_got: Vec<Vec<u8>>,
    }
    let out: Result<Out, String> = rt.block_on(async {
        let lsock = TcpSocket::new_v4().map_err(|e| e.to_string())?;
        let _ = lsock.set_recv_buffer_size(4096);
        lsock.bind("127.0.0.1:0".parse().unwrap()).map_err(|e| e.to_string())?;
        let listener = lsock.listen(8).map_err(|e| e.to_string())?;
        let addr = listener.local_addr().map_err(|e| e.to_string())?;
        let (drain_tx, drain_rx) = tokio::sync::oneshot::channel::<()>();
        let server = tokio::spawn(async move {
            let Ok((tcp, _)) = listener.accept().await else { return vec![] };
            let Ok(mut ws) = tokio_tungstenite::accept_async(tcp).await else { return vec![] };
            if drain_rx.await.is_err() {
                return vec![];
            }
            let mut got: Vec<Vec<u8>> = vec![];
            while let Ok(Some(Ok(m))) = tokio::time::timeout(Duration::from_millis(1500), ws.next()).await {
                if let Message::Binary(b) = m {
                    got.push(b);
                }
            }
            got
        });
        let csock = TcpSocket::new_v4().map_err(|e| e.to_string())?;
        let _ = csock.set_send_buffer_size(4096);
        let tcp = tokio::time::timeout(WATCHDOG, csock.connect(addr)).await.map_err(|_| "connect watchdog".to_string())?.map_err(|e| e.to_string())?;
        let (ws, _) = tokio::time::timeout(WATCHDOG, tokio_tungstenite::client_async(format!("ws://{addr}/connect"), tokio_tungstenite::MaybeTlsStream::Plain(tcp)))
            .await
            .map_err(|_| "ws handshake watchdog".to_string())?
            .map_err(|e| e.to_string())?;
        let mut framed = tokio_impl::Framed::new(Box::new(tokio_impl::WebsocketStream::from(ws)), Codec::new(mode_of(compressed)));
        let mut frames = vec![];
        let mut completed = vec![];
        let mut cancelled = 0usize;
        let mut after_stall = 0usize;
        let mut i = 0usize;
        // phase 1: write until the first stall, then keep issuing (mostly cancelled) writes
        while i < 400_000 && after_stall < extra_cancelled {
            let pk = packet(i);
            let Enc::Ok(e) = real_encode(&pk, compressed) else { return Err("generated packet not encodable".to_string()) };
            frames.push(e);
            let budget = if cancelled == 0 { 150 } else { 3 };
            match tokio::time::timeout(Duration::from_millis(budget), framed.write(pk)).await {
                Ok(Ok(())) => completed.push(true),
                Ok(Err(e)) => return Err(format!("write failed: {e}")),
                Err(_) => {
                    completed.push(false);
                    cancelled += 1;
                },
            }
            if cancelled > 0 {
                after_stall += 1;
            }
            i += 1;
        }
        if cancelled == 0 {
            return Err("NO-BACKPRESSURE".to_string());
        }
        // phase 2: the peer reads again; a few more writes, all awaited
        let _ = drain_tx.send(());
        for _ in 0..5 {
            let pk = packet(i);
            let Enc::Ok(e) = real_encode(&pk, compressed) else { return Err("generated packet not encodable".to_string()) };
            frames.push(e);
            match tokio::time::timeout(WATCHDOG, framed.write(pk)).await {
                Ok(Ok(())) => completed.push(true),
                Ok(Err(e)) => return Err(format!("write failed after the peer resumed: {e}")),
                Err(_) => return Err("write watchdog after the peer resumed".to_string()),
            }
            i += 1;
        }
        let server_got = tokio::time::timeout(WATCHDOG, server).await.map_err(|_| "server watchdog".to_string())?.map_err(|e| e.to_string())?;
        Ok(Out { frames, completed, cancelled, server_got })
    });
    if matches!(&out, Err(e) if e == "NO-BACKPRESSURE") {
        p.count("bp_not_reached", 1);
        return Ok(());
    }
    let o = out.map_err(|e| format!("{label}: {e}"))?;
    p.evaluations += 1;
    p.distinct(&label);
    p.count("bp_cancelled_writes", o.cancelled as u64);
    p.count("bp_messages_received", o.server_got.len() as u64);
    let replay = json!({"label": label, "writes_attempted": o.frames.len(), "writes_cancelled": o.cancelled, "messages_received": o.server_got.len()});
    // every message is exactly one attempted frame, in call order, no duplicates
    let mut next = 0usize;
    let mut seen = vec![false; o.frames.len()];
    for (mi, m) in o.server_got.iter().enumerate() {
        let (fr, rest) = crate::transport::ref_frames(m, compressed);
        if fr.len() != 1 || !rest.is_empty() {
            p.violation(
                "C20/websocket-backpressure/message-is-not-one-frame",
                format!("{label}: binary message #{mi} of {} bytes holds {} frame(s) and {} stray byte(s) ({} writes had been cancelled)", m.len(), fr.len(), rest.len(), o.cancelled),
                replay,
            );
            return Ok(());
        }
        match (next..o.frames.len()).find(|k| o.frames[*k] == *m) {
            Some(k) => {
                seen[k] = true;
                next = k + 1;
            },
            None => {
                p.violation("C20/websocket-backpressure/message-out-of-order-or-duplicated", format!("{label}: binary message #{mi} is not a later write's frame (duplicate, reordered or altered)"), replay);
                return Ok(());
            },
        }
    }
    if let Some(k) = (0..o.frames.len()).find(|k| o.completed[*k] && !seen[*k]) {
        p.violation("C20/websocket-backpressure/frames-missing", format!("{label}: write #{k} returned Ok but its frame never reached the peer"), replay);
    }
    Ok(())
}

/// WebsocketStream driven directly through AsyncRead with caller buffers of chosen sizes.
fn run_direct(r: &mut Rng, bufsize: usize, p: &mut Part) -> Result<(), String> {
    let rt = tokio::runtime::Builder::new_current_thread().enable_all().build().map_err(|e| e.to_string())?;
    let mut payload = vec![];
    let mut msgs = vec![];
    for _ in 0..1 + r.usize_below(12) {
        let n = match r.below(4) {
            0 => 0,
            1 => 1 + r.usize_below(8),
            2 => 1000 + r.usize_below(60),
            _ => r.usize_below(5000),
        };
        let b = r.bytes(n);
        payload.extend_from_slice(&b);
        if r.chance(1, 5) {
            msgs.push(Msg::Ping(vec![7]));
        }
        if r.chance(1, 5) {
            msgs.push(Msg::Text("x".into()));
        }
        msgs.push(Msg::Bin(b));
    }
    let got: Result<Vec<u8>, String> = rt.block_on(async {
        let listener = TcpListener::bind("127.0.0.1:0").await.map_err(|e| e.to_string())?;
        let addr = listener.local_addr().map_err(|e| e.to_string())?;
        let server = tokio::spawn(serve(listener, msgs, Close::Frame, 0, false));
        let (ws, _) = tokio_tungstenite::connect_async(format!("ws://{addr}/")).await.map_err(|e| e.to_string())?;
        let mut s = tokio_impl::WebsocketStream::from(ws);
        let mut out = vec![];
        let mut buf = vec![0u8; bufsize];
        loop {
            match tokio::time::timeout(WATCHDOG, s.read(&mut buf)).await {
                Err(_) => return Err("direct read watchdog".to_string()),
                Ok(Ok(0)) => break,
                Ok(Ok(n)) => out.extend_from_slice(&buf[..n]),
                Ok(Err(_)) => break,
            }
        }
        let _ = server.await;
        Ok(out)
    });
    let got = got?;
    p.evaluations += 1;
    p.distinct(&("direct", bufsize, &payload));
    if got != payload {
        let at = got.iter().zip(payload.iter()).position(|(a, b)| a != b).unwrap_or(got.len().min(payload.len()));
        p.violation(
            "C20/direct-read-bytes-differ",
            format!("reading with a {bufsize}-byte caller buffer returned {} bytes, the binary payloads hold {} (first difference at {at})", got.len(), payload.len()),
            json!({"bufsize": bufsize, "payload_len": payload.len()}),
        );
    }
    Ok(())
}

pub fn run(ctx: &mut Ctx) -> (&'static str, String, bool) {
    let c = match Corpus::load() {
        Ok(c) => c,
        Err(e) => {
            ctx.inconclusive(format!("cannot load the reference specification: {e}"));
            return ("exploration", "spec missing".into(), false);
        },
    };
    let asan = ctx.stage.as_deref() == Some("asan");
    let reps = if asan { 3 } else { ctx.tier.pick(3usize, 40usize) };
    let mut p = Part::new();
    let mut r = ctx.rng.fork(20);
    let mut done = 0;
    {
        use rayon::prelude::*;
        let mut jobs = vec![];
        for rep in 0..reps {
            for compressed in MODES {
                for style in 0..6u64 {
                    let coded = Close::Coded([1012u16, 1013, 1008, 1011, 4000, 1001, 1000][(rep + style as usize) % 7]);
                    for close in [Close::Frame, Close::Abrupt, coded] {
                        jobs.push((rep, compressed, style, close, r.fork(jobs.len() as u64 + 1)));
                    }
                }
            }
        }
        let parts: Vec<(Part, Result<(), String>)> = jobs
            .into_par_iter()
            .map(|(rep, compressed, style, close, mut r)| {
                let mut p = Part::new();
                let target = if style == 3 || rep % 2 == 1 { 6120 * 2 + r.usize_below(6120) } else { 200 + r.usize_below(3000) };
                let cut = (rep + style as usize) % 3 == 0;
                let res = run_session(&c, &mut r, compressed, style, close, target, cut, &mut p);
                (p, res)
            })
            .collect();
        for (part, res) in parts {
            p.merge(part);
            match res {
                Ok(()) => done += 1,
                Err(e) => ctx.inconclusive(e),
            }
        }
    }
    // closure right after the last packets, before the client reads; writes under back-pressure
    {
        use rayon::prelude::*;
        #[derive(Clone, Copy)]
        enum Job {
            CloseRace(bool, Close, usize),
            CancelledWrites(bool, usize),
            Keepalive(bool, u64),
            Writes(bool, usize),
        }
        let mut jobs: Vec<(Job, Rng)> = vec![];
        for rep in 0..if asan { 1 } else { ctx.tier.pick(2usize, 12usize) } {
            for compressed in MODES {
                for close in [Close::Frame, Close::Abrupt, Close::Coded([1012u16, 1008, 4000, 1001][rep % 4])] {
                    for per in [1usize, 3, 50] {
                        jobs.push((Job::CloseRace(compressed, close, per), r.fork(7000 + jobs.len() as u64)));
                    }
                }
                if rep == 0 {
                    jobs.push((Job::CancelledWrites(compressed, if asan { 200 } else { ctx.tier.pick(700usize, 3000usize) }), r.fork(7000 + jobs.len() as u64)));
                    for cancel_ms in [60u64, 400] {
                        jobs.push((Job::Keepalive(compressed, cancel_ms), r.fork(7000 + jobs.len() as u64)));
                    }
                    jobs.push((Job::Writes(compressed, if asan { 1500 } else { ctx.tier.pick(4000usize, 12000usize) }), r.fork(7000 + jobs.len() as u64)));
                }
            }
        }
        let cref = &c;
        let parts: Vec<(Part, Result<(), String>)> = jobs
            .into_par_iter()
            .map(|(job, mut r)| {
                let mut p = Part::new();
                let res = match job {
                    Job::CloseRace(compressed, close, per) => run_close_race(cref, &mut r, compressed, close, per, &mut p),
                    Job::CancelledWrites(compressed, n) => run_backpressure_cancelled_writes(compressed, n, &mut p),
                    Job::Keepalive(compressed, ms) => run_backpressure_keepalive(compressed, ms, &mut p),
                    Job::Writes(compressed, n) => run_backpressure_writes(cref, &mut r, compressed, n, &mut p, "C20"),
                };
                (p, res)
            })
            .collect();
        for (part, res) in parts {
            p.merge(part);
            if let Err(e) = res {
                ctx.inconclusive(e);
            }
        }
    }
    let sizes: Vec<usize> = if asan { vec![1, 7, 1020] } else if ctx.tier == Tier::Thorough { (1..=64).chain([100, 255, 256, 1019, 1020, 1021, 2048]).collect() } else { vec![1, 2, 3, 5, 64, 1019, 1020, 1021, 2048] };
    for bs in sizes {
        for _ in 0..ctx.tier.pick(1, 4) {
            if let Err(e) = run_direct(&mut r, bs, &mut p) {
                ctx.inconclusive(format!("direct read with buffer {bs}: {e}"));
            }
        }
    }
    p.sample(json!({"style": 2, "description": "frames split across binary messages at arbitrary offsets, with text/ping/pong and empty binary messages interleaved; server then closes"}));
    ctx.merge(p);
    ctx.extra("framed_sessions", json!(done));
    ctx.assume("a loopback tungstenite server stands in for isrelay.lfs.net; the client side is tokio_tungstenite::connect_async + WebsocketStream::from, as the builder does");
    ctx.assume("every session is ended by the server, so swallowed bytes show up as a short/different result sequence, never as a verdict by timeout (watchdog expiry = inconclusive)");
    (
        "exploration",
        "frame streams (all kinds, unknown types, undecodable bodies, up to 3x the 6120-byte buffer) delivered as binary messages in six partition styles (one frame per message, several per message, split anywhere, > 1020-byte messages up to 64 KiB, 1-3 byte messages, boundary +-1) with text/ping/pong/empty messages interleaved x both size modes x {close frame without / with a status code and reason, abrupt TCP close} x stream cut mid-frame; then 6 writes observed by the server; closure racing the last packets; 4000-12000 writes and a keep-alive answered under back-pressure (peer not reading, 4 KiB socket buffers) with the answering read cancelled in the flush; hundreds of writes cancelled under back-pressure followed by completed ones (one frame per message, in order, none lost); plus direct AsyncRead with caller buffers 1..2048; distinct = distinct (session, stream)".into(),
        false,
    )
}
