//! C06 — Writes reach the transport complete, contiguous and in order.

use std::io::ErrorKind;

use insim::Packet;
use rayon::prelude::*;
use serde_json::json;

use crate::{
    corpus::{mode_name, real_encode, Corpus, Enc, MODES},
    ctx::{hex, Ctx, Part},
    refspec::{GenOpts, TextMode},
    sess::composition,
    transport::{runtime, Conn, Handle, Impl, WAct},
};

use super::c05::IMPLS;

struct WriteCase {
    compressed: bool,
    packets: Vec<Packet>,
    write_plan: Vec<WAct>,
    default_write: usize,
    /// tokio only: 0 = plain transport; k >= 1 = buffering transport whose flush is Pending k-1 times before it completes
    flush: usize,
    label: String,
}

fn run_case(which: Impl, case: &WriteCase, p: &mut Part) {
    p.evaluations += 1;
    let h = Handle::new(vec![], vec![], case.write_plan.clone());
    h.with(|s| s.default_write = case.default_write);
    if case.flush > 0 && which == Impl::Tokio {
        h.with(|s| {
            s.buffered = true;
            s.flush_plan = (0..4096).map(|i| i % case.flush != case.flush - 1).collect();
        });
    }
    let mut conn = Conn::new(which, &h, case.compressed, false);
    let mut expected: Vec<u8> = vec![];
    let mut failed = false;
    let mut partial_allowed: Vec<u8> = vec![];
    for pk in &case.packets {
        let enc = match real_encode(pk, case.compressed) {
            Enc::Ok(b) => b,
            Enc::Err(_) => {
                // a packet the encoder refuses with an error: the connection must refuse it too and carry on
                // unharmed - nothing of it may reach the transport, and the frames that follow must be intact
                match crate::ctx::guarded(|| conn.write(&h, pk.clone())) {
                    Ok(Err(_)) => p.count("refused_packets_written", 1),
                    Ok(Ok(())) => p.violation(format!("C06/{}/unencodable-packet-accepted", which.name()), format!("{} [{}]: write accepted a packet the encoder refuses", which.name(), case.label), json!({"label": case.label})),
                    Err(pn) => p.violation(format!("C06/{}/write-panic", which.name()), format!("{} [{}]: write of a refused packet panicked: {pn}", which.name(), case.label), json!({"label": case.label})),
                }
                continue;
            },
            _ => continue,
        };
        let wrote = match crate::ctx::guarded(|| conn.write(&h, pk.clone())) {
            Ok(r) => r,
            Err(pn) => {
                p.violation(
                    format!("C06/{}/write-panic", which.name()),
                    format!("{} [{}]: write of a packet the encoder accepts panicked: {pn}", which.name(), case.label),
                    json!({"impl": which.name(), "mode": mode_name(case.compressed), "label": case.label, "packet": format!("{:?}", pk).chars().take(200).collect::<String>()}),
                );
                return;
            },
        };
        match wrote {
            Ok(()) => expected.extend_from_slice(&enc),
            Err(_) => {
                // an injected transport error ends the session's obligations; what was accepted so far must be a prefix
                failed = true;
                partial_allowed = enc;
                break;
            },
        }
    }
    let written = h.with(|s| s.written.clone());
    let injected = case.write_plan.iter().any(|a| matches!(a, WAct::Error(_)));
    let replay = json!({"impl": which.name(), "mode": mode_name(case.compressed), "label": case.label, "packets": case.packets.iter().map(|p| format!("{:?}", p).chars().take(120).collect::<String>()).collect::<Vec<_>>(),
        "write_plan": format!("{:?}", &case.write_plan[..case.write_plan.len().min(64)]), "default_write": case.default_write, "expected": hex(&expected[..expected.len().min(600)]), "written": hex(&written[..written.len().min(600)])});
    let sig = |w: &str| format!("C06/{}/{w}", which.name());
    if failed {
        if !injected {
            p.violation(sig("write-failed-without-fault"), format!("{} [{}]: write returned an error although the transport reported none", which.name(), case.label), replay);
            return;
        }
        let mut full = expected.clone();
        full.extend_from_slice(&partial_allowed);
        if !full.starts_with(&written) || written.len() < expected.len() {
            p.violation(sig("prefix-violated-after-error"), format!("{} [{}]: bytes accepted before the transport error are not a prefix of the frames written", which.name(), case.label), replay);
        }
        return;
    }
    if written != expected {
        let at = written.iter().zip(expected.iter()).position(|(a, b)| a != b).unwrap_or(written.len().min(expected.len()));
        let what = if written.len() < expected.len() && at == written.len() { "bytes-missing" } else if written.len() > expected.len() && at == expected.len() { "extra-bytes" } else { "bytes-differ" };
        p.violation(
            sig(what),
            format!(
                "{} {} [{}]: {} packets written successfully = {} bytes expected on the transport, {} bytes arrived (first difference at {at})",
                which.name(),
                mode_name(case.compressed),
                case.label,
                case.packets.len(),
                expected.len(),
                written.len()
            ),
            replay,
        );
    }
}

pub fn run(ctx: &mut Ctx) -> (&'static str, String, bool) {
    let c = match Corpus::load() {
        Ok(c) => c,
        Err(e) => {
            ctx.inconclusive(format!("cannot load the reference specification: {e}"));
            return ("fault_enumeration", "spec missing".into(), false);
        },
    };
    let c = &c;
    let miri = ctx.stage.as_deref() == Some("miri");
    let (shard, nshards) = ctx.shard;
    let base_rng = ctx.rng.fork(6);

    // ---- all compositions of short frames (<= 12 bytes) into per-call accepted counts, with Pending 0..2 before calls
    {
        let rt = runtime();
        let _g = rt.enter();
        let mut p = Part::new();
        let mut r = base_rng.fork(1);
        let short_kinds: &[&str] = if miri { &["TINY", "SMALL"] } else { &["TINY", "SMALL", "PLP", "VTN", "SCH", "CRS", "PLC"] };
        for compressed in MODES {
            for &kind in short_kinds {
                let lay = c.spec.packet(kind);
                let o = GenOpts { text: TextMode::Ascii, max_list: Some(1), boundary: 4, hostile: false };
                let Ok((_, pk)) = c.packet(&mut r, lay, &o) else { continue };
                let Enc::Ok(enc) = real_encode(&pk, compressed) else { continue };
                let total = enc.len();
                if total > 12 {
                    continue;
                }
                for mask in 0..(1u64 << (total - 1)) {
                    if miri && mask % nshards != shard {
                        continue;
                    }
                    for pend in 0..if miri { 2usize } else { 3usize } {
                        let mut plan = vec![];
                        for k in composition(total, mask) {
                            for _ in 0..pend {
                                plan.push(WAct::Pending);
                            }
                            plan.push(WAct::Accept(k));
                        }
                        for which in IMPLS {
                            if which == Impl::Blocking && pend > 0 {
                                continue;
                            }
                            let case = WriteCase { compressed, packets: vec![pk.clone(), pk.clone()], write_plan: plan.clone(), default_write: 1, flush: 0, label: format!("exhaustive-{kind}-mask{mask}-pend{pend}") };
                            run_case(which, &case, &mut p);
                            p.distinct(&(which.name(), compressed, kind, mask, pend));
                        }
                    }
                }
            }
        }
        p.count("exhaustive_composition_sessions", p.evaluations);
        p.sample(json!({"kind": "TINY", "frame_len": 4, "acceptance_patterns": 8, "note": "every composition of the frame length into per-call accepted byte counts, x Pending 0..2 before each call (async)"}));
        ctx.merge(p);
    }

    // ---- packet sequences of every kind with random / adversarial acceptance ----------------------
    let n = if miri { 2 } else { ctx.tier.pick(4_000u64, 200_000u64) };
    let parts: Vec<Part> = (0..n)
        .into_par_iter()
        .map(|i| {
            let rt = runtime();
            let _g = rt.enter();
            let mut p = Part::new();
            let mut r = base_rng.fork(100 + i + 104729 * shard);
            let compressed = i % 2 == 0;
            let npk = 1 + r.usize_below(if miri { 4 } else { 24 });
            let mut packets = vec![];
            for _ in 0..npk {
                let lay = r.pick(c.kinds());
                let o = GenOpts { text: if r.chance(1, 3) { TextMode::Mixed } else { TextMode::Ascii }, max_list: None, boundary: 4, hostile: false };
                if let Ok((_, pk)) = c.packet(&mut r, lay, &o) {
                    if matches!(real_encode(&pk, compressed), Enc::Ok(_)) {
                        packets.push(pk);
                    }
                }
            }
            let style = r.below(6);
            let default_write = match style {
                0 => 1,
                1 => 3,
                2 => 0,
                _ => 1 + r.usize_below(300),
            };
            let mut plan = vec![];
            let total: usize = packets.iter().map(|p| if let Enc::Ok(b) = real_encode(p, compressed) { b.len() } else { 0 }).sum();
            if style >= 3 {
                let mut left = total;
                while left > 0 && plan.len() < 50_000 {
                    let k = match style {
                        3 => 1 + r.usize_below(7),
                        4 => left.saturating_sub(1).max(1), // all but one
                        _ => 1 + r.usize_below(1100),
                    };
                    if r.chance(1, 4) {
                        plan.push(WAct::Pending);
                    }
                    if r.chance(1, 9) {
                        plan.push(WAct::Error(ErrorKind::Interrupted)); // blocking: retried by write_all; tokio: surfaces
                    }
                    plan.push(WAct::Accept(k));
                    left = left.saturating_sub(k);
                }
            }
            // every fourth sequence also holds packets that are legal values but cannot be encoded (a 70 s camera
            // transition, a 70 s ISI interval): they are refused, and must leave no trace
            let mut packets = packets;
            if i % 4 == 1 {
                for _ in 0..1 + r.usize_below(2) {
                    let bad = if r.chance(1, 2) {
                        Packet::Cpp(insim::insim::Cpp { time: std::time::Duration::from_secs(70), ..Default::default() })
                    } else {
                        Packet::Isi(insim::insim::Isi { interval: std::time::Duration::from_secs(70), ..Default::default() })
                    };
                    let at = r.usize_below(packets.len() + 1);
                    packets.insert(at, bad);
                }
            }
            for which in IMPLS {
                let mut plan2 = plan.clone();
                if which == Impl::Tokio {
                    // an async transport has no EINTR: keep only Pending / Accept for tokio
                    plan2.retain(|a| !matches!(a, WAct::Error(_)));
                }
                let case = WriteCase { compressed, packets: packets.clone(), write_plan: plan2, default_write, flush: [0, 0, 1, 2, 3][(i % 5) as usize], label: format!("random-{i}-style{style}") };
                run_case(which, &case, &mut p);
            }
            p.distinct(&(i, total));
            // hard transport errors: the accepted bytes must remain a prefix
            if i % 5 == 0 && total > 8 {
                let cut = 1 + r.usize_below(total - 1);
                let plan = vec![WAct::Accept(cut), WAct::Error(ErrorKind::BrokenPipe)];
                for which in IMPLS {
                    let case = WriteCase { compressed, packets: packets.clone(), write_plan: plan.clone(), default_write: 0, flush: 0, label: format!("hard-error-{i}-after{cut}") };
                    run_case(which, &case, &mut p);
                }
            }
            p
        })
        .collect();
    for p in parts {
        ctx.merge(p);
    }
    // ---- the WebSocket adaptor's write path under real back-pressure (its sink may return Pending on flush) ----
    if !miri {
        let mut p = Part::new();
        let mut r = base_rng.fork(4242);
        for compressed in MODES {
            if let Err(e) = super::c20::run_backpressure_writes(c, &mut r, compressed, ctx.tier.pick(4000usize, 12000usize), &mut p, "C06") {
                ctx.inconclusive(e);
            }
        }
        ctx.merge(p);
    }
    // ---- a transport that is not ready for a long time (virtual clock): "no matter ... how often it reports that it is
    //      not ready" has no time limit. Stalls of 10 s ... 10 min between accepted pieces, under tokio's paused clock ---
    if !miri {
        use std::{
            future::Future,
            pin::Pin,
            task::{Context, Poll},
            time::Duration,
        };

        use tokio::io::{AsyncRead, AsyncWrite, ReadBuf};

        #[derive(Debug)]
        struct SlowSink {
            /// (bytes accepted by this call, stall before it)
            plan: std::collections::VecDeque<(usize, Duration)>,
            sleeping: Option<Pin<Box<tokio::time::Sleep>>>,
            written: std::sync::Arc<std::sync::Mutex<Vec<u8>>>,
        }
        impl AsyncRead for SlowSink {
            fn poll_read(self: Pin<&mut Self>, _cx: &mut Context<'_>, _buf: &mut ReadBuf<'_>) -> Poll<std::io::Result<()>> {
                Poll::Pending
            }
        }
        impl AsyncWrite for SlowSink {
            fn poll_write(mut self: Pin<&mut Self>, cx: &mut Context<'_>, buf: &[u8]) -> Poll<std::io::Result<usize>> {
                let (k, stall) = self.plan.front().copied().unwrap_or((usize::MAX, Duration::ZERO));
                if !stall.is_zero() {
                    if self.sleeping.is_none() {
                        self.sleeping = Some(Box::pin(tokio::time::sleep(stall)));
                    }
                    if self.sleeping.as_mut().unwrap().as_mut().poll(cx).is_pending() {
                        return Poll::Pending;
                    }
                    self.sleeping = None;
                }
                let _ = self.plan.pop_front();
                let n = k.max(1).min(buf.len());
                self.written.lock().unwrap().extend_from_slice(&buf[..n]);
                Poll::Ready(Ok(n))
            }
            fn poll_flush(self: Pin<&mut Self>, _cx: &mut Context<'_>) -> Poll<std::io::Result<()>> {
                Poll::Ready(Ok(()))
            }
            fn poll_shutdown(self: Pin<&mut Self>, _cx: &mut Context<'_>) -> Poll<std::io::Result<()>> {
                Poll::Ready(Ok(()))
            }
        }
        let mut p = Part::new();
        let mut r = base_rng.fork(6060);
        for case in 0..ctx.tier.pick(24u64, 200u64) {
            let compressed = case % 2 == 0;
            let mut packets = vec![];
            let mut expected = vec![];
            for _ in 0..3 {
                let lay = r.pick(c.kinds());
                let o = GenOpts { text: TextMode::Ascii, max_list: Some(8), boundary: 4, hostile: false };
                if let Ok((_, pk)) = c.packet(&mut r, lay, &o) {
                    if let Enc::Ok(e) = real_encode(&pk, compressed) {
                        packets.push(pk);
                        expected.extend_from_slice(&e);
                    }
                }
            }
            // stalls: one long one, or many medium ones, always after at least one byte of a frame was accepted
            let mut plan = std::collections::VecDeque::new();
            match case % 3 {
                0 => {
                    plan.push_back((1 + r.usize_below(3), Duration::ZERO));
                    plan.push_back((usize::MAX, Duration::from_secs(95 + r.below(600))));
                },
                1 => {
                    for _ in 0..30 {
                        plan.push_back((1 + r.usize_below(4), Duration::from_secs(10)));
                    }
                },
                _ => {
                    plan.push_back((2, Duration::from_secs(89)));
                    plan.push_back((1, Duration::from_secs(91)));
                    plan.push_back((usize::MAX, Duration::from_secs(3600)));
                },
            }
            let written = std::sync::Arc::new(std::sync::Mutex::new(vec![]));
            let sink = SlowSink { plan, sleeping: None, written: written.clone() };
            let rt = match tokio::runtime::Builder::new_current_thread().enable_time().start_paused(true).build() {
                Ok(rt) => rt,
                Err(_) => continue,
            };
            let outcome: Result<(), String> = rt.block_on(async {
                let mut f = insim::net::tokio_impl::Framed::new(Box::new(sink), insim::net::Codec::new(crate::transport::mode_of(compressed)));
                for pk in packets.clone() {
                    f.write(pk).await.map_err(|e| e.to_string())?;
                }
                Ok(())
            });
            p.evaluations += 1;
            p.distinct(&(case, &expected));
            p.count("slow_transport_sessions", 1);
            let got = written.lock().unwrap().clone();
            if outcome.is_err() || got != expected {
                p.violation(
                    "C06/tokio/slow-transport",
                    format!(
                        "tokio {}: {} packets written to a transport that stalls for minutes (virtual time): write returned {:?}; {} of {} bytes reached the transport{}",
                        mode_name(compressed),
                        packets.len(),
                        outcome,
                        got.len(),
                        expected.len(),
                        if expected.starts_with(&got) { "" } else { ", not a prefix of the frames" }
                    ),
                    json!({"mode": mode_name(compressed), "case": case, "expected_len": expected.len(), "written": hex(&got[..got.len().min(256)])}),
                );
            }
        }
        ctx.merge(p);
    }
    // ---- connections made by Builder::tcp over loopback ---------------------------------------------------------
    if !miri {
        use crate::realconn::builder_tcp_session;
        let n = ctx.tier.pick(8u64, 80u64);
        let base = ctx.rng.fork(6006);
        let parts: Vec<(Part, Option<String>)> = (0..n)
            .into_par_iter()
            .map(|i| {
                let mut p = Part::new();
                let mut r = base.fork(i);
                let which = if i % 2 == 0 { Impl::Blocking } else { Impl::Tokio };
                let compressed = (i / 2) % 2 == 0;
                let stream = super::c05::make_stream(c, &mut r, compressed, 200, true);
                let nw = if i % 4 == 3 { 1500 } else { 40 };
                match builder_tcp_session(c, &mut r, which, compressed, stream, nw) {
                    Ok(o) => {
                        p.evaluations += 1;
                        p.count("builder_tcp_sessions", 1);
                        p.count("builder_tcp_packets_written", o.written_frames.len() as u64);
                        let expected: Vec<u8> = o.written_frames.concat();
                        p.distinct(&(which.name(), &expected));
                        let skip = 4 * o.keepalives;
                        let got = if o.outgoing.len() >= skip { &o.outgoing[skip..] } else { &o.outgoing[..0] };
                        if let Some(e) = &o.write_error {
                            p.violation(format!("C06/{}/builder-tcp/write-failed", which.name()), format!("{}: write failed on a healthy connection: {e}", o.label), json!({"label": o.label}));
                        } else if got != &expected[..] {
                            let at = got.iter().zip(expected.iter()).position(|(a, b)| a != b).unwrap_or(got.len().min(expected.len()));
                            p.violation(
                                format!("C06/{}/builder-tcp/bytes-differ", which.name()),
                                format!("{}: {} packets written = {} bytes; the peer received {} bytes after the keep-alive replies (first difference at {at})", o.label, o.written_frames.len(), expected.len(), got.len()),
                                json!({"label": o.label, "expected_len": expected.len(), "received_len": got.len(), "first_difference": at}),
                            );
                        }
                        (p, None)
                    },
                    Err(e) => (p, Some(e)),
                }
            })
            .collect();
        for (p, e) in parts {
            ctx.merge(p);
            if let Some(e) = e {
                ctx.inconclusive(format!("builder TCP session could not be judged: {e}"));
            }
        }
    }
    ctx.assume("only writes that returned Ok create an obligation; after an injected hard error the accepted bytes must still be a prefix of the expected stream");
    ctx.assume("Interrupted (EINTR) is injected for the blocking transport only, where std's write_all semantics define it as retryable");
    (
        "fault_enumeration",
        "every composition of short frames (<=12 bytes) into per-call accepted counts x Pending 0..2 before every call x {blocking,tokio} x both modes; sequences of 1..24 packets of every kind under 1-byte, 3-byte, all-but-one, random and everything-at-once acceptance with Pending / EINTR injection; hard errors mid-frame; tokio also over a buffering transport whose flush is Pending 0-2 times, and over a transport that stalls for 10 s - 1 h of virtual time inside a frame; connections made by Builder::tcp over loopback writing 40 / 1500 packets that the peer reads to EOF; distinct = distinct (impl, mode, packets, plan)".into(),
        true,
    )
}
