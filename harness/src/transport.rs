//! Scripted in-memory transports (blocking and async) with a shared, append-only event log, and
//! session drivers that record call/return events at the client boundary.

use std::{
    collections::VecDeque,
    future::Future,
    io::{self, ErrorKind, Read, Write},
    pin::Pin,
    sync::{Arc, Mutex},
    task::{Context, Poll, Waker},
};

use insim::{
    net::{blocking_impl, tokio_impl, Codec, Mode},
    Packet,
};
use tokio::io::{AsyncRead, AsyncWrite, ReadBuf};

#[derive(Clone, Debug, PartialEq)]
pub enum RAct {
    /// return at most this many bytes (at least 1 if any remain)
    Bytes(usize),
    /// transient transport error
    Error(ErrorKind),
    /// async only: not ready (the waker is invoked immediately)
    Pending,
}

#[derive(Clone, Debug, PartialEq)]
pub enum WAct {
    /// accept at most this many bytes (at least 1)
    Accept(usize),
    Error(ErrorKind),
    Pending,
}

#[derive(Clone, Debug, PartialEq)]
pub enum Ev {
    TRead { offered: usize, returned: usize },
    TReadErr(ErrorKind),
    TReadPending,
    TReadEof,
    TWrite { offered: usize, accepted: usize },
    TWriteErr(ErrorKind),
    TWritePending,
    TFlush { moved: usize },
    TFlushPending,
    ReadCall,
    ReadReturn(ReadResult),
    WriteCall(String),
    WriteReturn(bool),
    FutureDropped { poll_index: usize },
    Buf { len: usize, capacity: usize },
}

#[derive(Debug, Default)]
pub struct Shared {
    pub incoming: Vec<u8>,
    pub rpos: usize,
    pub read_plan: VecDeque<RAct>,
    pub write_plan: VecDeque<WAct>,
    /// when the plans run out: bytes per read / write (0 = everything offered)
    pub default_read: usize,
    pub default_write: usize,
    pub written: Vec<u8>,
    pub events: Vec<Ev>,
    pub min_offered: usize,
    /// number of transport polls so far (read + write), for cancellation plans
    pub polls: usize,
    /// buffered (message-queue like) transport, as the WebSocket adaptor is: accepted bytes are only staged and
    /// reach `written` (the wire) when a flush completes. Off by default.
    pub buffered: bool,
    pub staged: Vec<u8>,
    /// async only: `true` = this flush poll is not ready
    pub flush_plan: VecDeque<bool>,
}

#[derive(Clone, Debug)]
pub struct Handle(pub Arc<Mutex<Shared>>);

impl Handle {
    pub fn new(incoming: Vec<u8>, read_plan: Vec<RAct>, write_plan: Vec<WAct>) -> Handle {
        Handle(Arc::new(Mutex::new(Shared {
            incoming,
            read_plan: read_plan.into(),
            write_plan: write_plan.into(),
            min_offered: usize::MAX,
            ..Default::default()
        })))
    }
    pub fn log(&self, e: Ev) {
        self.0.lock().unwrap().events.push(e);
    }
    pub fn with<T>(&self, f: impl FnOnce(&mut Shared) -> T) -> T {
        f(&mut self.0.lock().unwrap())
    }
    pub fn feed(&self, more: &[u8]) {
        self.0.lock().unwrap().incoming.extend_from_slice(more);
    }
}

impl Shared {
    fn do_read(&mut self, dst: &mut [u8], allow_pending: bool) -> Poll<io::Result<usize>> {
        self.polls += 1;
        let offered = dst.len();
        self.min_offered = self.min_offered.min(offered);
        let remaining = self.incoming.len() - self.rpos;
        let act = loop {
            match self.read_plan.pop_front() {
                Some(RAct::Pending) if !allow_pending => continue,
                Some(a) => break a,
                None => break RAct::Bytes(if self.default_read == 0 { usize::MAX } else { self.default_read }),
            }
        };
        match act {
            RAct::Pending => {
                self.events.push(Ev::TReadPending);
                Poll::Pending
            },
            RAct::Error(k) => {
                self.events.push(Ev::TReadErr(k));
                Poll::Ready(Err(io::Error::new(k, "injected transient error")))
            },
            RAct::Bytes(k) => {
                if remaining == 0 {
                    self.events.push(Ev::TReadEof);
                    return Poll::Ready(Ok(0));
                }
                let n = k.max(1).min(offered).min(remaining);
                dst[..n].copy_from_slice(&self.incoming[self.rpos..self.rpos + n]);
                self.rpos += n;
                self.events.push(Ev::TRead { offered, returned: n });
                Poll::Ready(Ok(n))
            },
        }
    }

    fn do_write(&mut self, src: &[u8], allow_pending: bool) -> Poll<io::Result<usize>> {
        self.polls += 1;
        let act = loop {
            match self.write_plan.pop_front() {
                Some(WAct::Pending) if !allow_pending => continue,
                Some(a) => break a,
                None => break WAct::Accept(if self.default_write == 0 { usize::MAX } else { self.default_write }),
            }
        };
        match act {
            WAct::Pending => {
                self.events.push(Ev::TWritePending);
                Poll::Pending
            },
            WAct::Error(k) => {
                self.events.push(Ev::TWriteErr(k));
                Poll::Ready(Err(io::Error::new(k, "injected transport error")))
            },
            WAct::Accept(k) => {
                let n = k.max(1).min(src.len());
                if self.buffered {
                    self.staged.extend_from_slice(&src[..n]);
                } else {
                    self.written.extend_from_slice(&src[..n]);
                }
                self.events.push(Ev::TWrite { offered: src.len(), accepted: n });
                Poll::Ready(Ok(n))
            },
        }
    }
}

impl Shared {
    fn do_flush(&mut self, allow_pending: bool) -> Poll<io::Result<()>> {
        if !self.buffered {
            return Poll::Ready(Ok(()));
        }
        self.polls += 1;
        if allow_pending && self.flush_plan.pop_front() == Some(true) {
            self.events.push(Ev::TFlushPending);
            return Poll::Pending;
        }
        let moved = self.staged.len();
        let staged = std::mem::take(&mut self.staged);
        self.written.extend_from_slice(&staged);
        self.events.push(Ev::TFlush { moved });
        Poll::Ready(Ok(()))
    }
}

// ---- blocking ---------------------------------------------------------------------------------

#[derive(Debug)]
pub struct BlockingTransport(pub Handle);

impl Read for BlockingTransport {
    fn read(&mut self, buf: &mut [u8]) -> io::Result<usize> {
        match self.0.with(|s| s.do_read(buf, false)) {
            Poll::Ready(r) => r,
            Poll::Pending => unreachable!(),
        }
    }
}

impl Write for BlockingTransport {
    fn write(&mut self, buf: &[u8]) -> io::Result<usize> {
        match self.0.with(|s| s.do_write(buf, false)) {
            Poll::Ready(r) => r,
            Poll::Pending => unreachable!(),
        }
    }
    fn flush(&mut self) -> io::Result<()> {
        match self.0.with(|s| s.do_flush(false)) {
            Poll::Ready(r) => r,
            Poll::Pending => unreachable!(),
        }
    }
}

// ---- async ------------------------------------------------------------------------------------

#[derive(Debug)]
pub struct AsyncTransport(pub Handle);

impl AsyncRead for AsyncTransport {
    fn poll_read(self: Pin<&mut Self>, cx: &mut Context<'_>, buf: &mut ReadBuf<'_>) -> Poll<io::Result<()>> {
        let dst = buf.initialize_unfilled();
        match self.0.with(|s| s.do_read(dst, true)) {
            Poll::Ready(Ok(n)) => {
                buf.advance(n);
                Poll::Ready(Ok(()))
            },
            Poll::Ready(Err(e)) => Poll::Ready(Err(e)),
            Poll::Pending => {
                cx.waker().wake_by_ref();
                Poll::Pending
            },
        }
    }
}

impl AsyncWrite for AsyncTransport {
    fn poll_write(self: Pin<&mut Self>, cx: &mut Context<'_>, buf: &[u8]) -> Poll<io::Result<usize>> {
        match self.0.with(|s| s.do_write(buf, true)) {
            Poll::Ready(r) => Poll::Ready(r),
            Poll::Pending => {
                cx.waker().wake_by_ref();
                Poll::Pending
            },
        }
    }
    fn poll_flush(self: Pin<&mut Self>, cx: &mut Context<'_>) -> Poll<io::Result<()>> {
        match self.0.with(|s| s.do_flush(true)) {
            Poll::Ready(r) => Poll::Ready(r),
            Poll::Pending => {
                cx.waker().wake_by_ref();
                Poll::Pending
            },
        }
    }
    fn poll_shutdown(self: Pin<&mut Self>, _cx: &mut Context<'_>) -> Poll<io::Result<()>> {
        Poll::Ready(Ok(()))
    }
}

// ---- results ----------------------------------------------------------------------------------

#[derive(Clone, Debug, PartialEq)]
pub enum ReadResult {
    Packet(String),
    DecodeErr,
    Io(ErrorKind),
    Disconnected,
    IncompatibleVersion(u8),
    Timeout,
    Other(String),
}

pub fn classify(r: Result<Packet, insim::Error>) -> ReadResult {
    match r {
        Ok(p) => ReadResult::Packet(format!("{:?}", p)),
        Err(insim::Error::Disconnected) => ReadResult::Disconnected,
        Err(insim::Error::BinRw(_)) => ReadResult::DecodeErr,
        Err(insim::Error::IO { kind, .. }) => ReadResult::Io(kind),
        Err(insim::Error::IncompatibleVersion(v)) => ReadResult::IncompatibleVersion(v),
        Err(insim::Error::Timeout(_)) => ReadResult::Timeout,
        Err(e) => ReadResult::Other(e.to_string()),
    }
}

pub fn mode_of(compressed: bool) -> Mode {
    if compressed {
        Mode::Compressed
    } else {
        Mode::Uncompressed
    }
}

pub fn noop_waker() -> Waker {
    futures_util::task::noop_waker()
}

pub fn runtime() -> tokio::runtime::Runtime {
    tokio::runtime::Builder::new_current_thread().enable_time().start_paused(true).build().expect("tokio runtime")
}

/// Poll a future by hand until it completes or `max_polls` is exceeded.
pub fn poll_to_end<F: Future>(mut fut: Pin<&mut F>, max_polls: usize) -> Option<F::Output> {
    let w = noop_waker();
    let mut cx = Context::from_waker(&w);
    for _ in 0..max_polls {
        if let Poll::Ready(v) = fut.as_mut().poll(&mut cx) {
            return Some(v);
        }
    }
    None
}

#[derive(Debug, Clone, Copy, PartialEq, Eq)]
pub enum Impl {
    Blocking,
    Tokio,
}

impl Impl {
    pub fn name(&self) -> &'static str {
        match self {
            Impl::Blocking => "blocking",
            Impl::Tokio => "tokio",
        }
    }
}

pub enum Conn {
    Blocking(blocking_impl::Framed),
    Tokio(tokio_impl::Framed),
}

impl Conn {
    pub fn new(which: Impl, h: &Handle, compressed: bool, verify_version: bool) -> Conn {
        let codec = Codec::new(mode_of(compressed));
        match which {
            Impl::Blocking => {
                let mut f = blocking_impl::Framed::new(Box::new(BlockingTransport(h.clone())), codec);
                f.verify_version(verify_version);
                Conn::Blocking(f)
            },
            Impl::Tokio => {
                let mut f = tokio_impl::Framed::new(Box::new(AsyncTransport(h.clone())), codec);
                f.verify_version(verify_version);
                Conn::Tokio(f)
            },
        }
    }

    pub fn buffer_state(&self) -> (usize, usize) {
        match self {
            Conn::Blocking(f) => f.verif_buffer_state(),
            Conn::Tokio(f) => f.verif_buffer_state(),
        }
    }

    /// One read call, logged at the client boundary. Must be called inside a runtime context for Tokio.
    pub fn read(&mut self, h: &Handle) -> ReadResult {
        h.log(Ev::ReadCall);
        let r = match self {
            Conn::Blocking(f) => classify(f.read()),
            Conn::Tokio(f) => {
                let mut fut = Box::pin(f.read());
                match poll_to_end(fut.as_mut(), 1_000_000) {
                    Some(r) => classify(r),
                    None => ReadResult::Other("read future did not complete within 1e6 polls".into()),
                }
            },
        };
        let (len, capacity) = self.buffer_state();
        h.log(Ev::Buf { len, capacity });
        h.log(Ev::ReadReturn(r.clone()));
        r
    }

    pub fn write(&mut self, h: &Handle, p: Packet) -> Result<(), String> {
        h.log(Ev::WriteCall(format!("{:?}", p)));
        let r = match self {
            Conn::Blocking(f) => f.write(p).map_err(|e| e.to_string()),
            Conn::Tokio(f) => {
                let mut fut = Box::pin(f.write(p));
                match poll_to_end(fut.as_mut(), 1_000_000) {
                    Some(r) => r.map_err(|e| e.to_string()),
                    None => Err("write future did not complete within 1e6 polls".into()),
                }
            },
        };
        h.log(Ev::WriteReturn(r.is_ok()));
        r
    }
}

/// Reference framer: split a byte stream into announced frames. `Err(offset)` on an impossible
/// length; an incomplete last frame is returned separately.
pub fn ref_frames(stream: &[u8], compressed: bool) -> (Vec<&[u8]>, &[u8]) {
    let lim = crate::refspec::limit(compressed);
    let mut out = vec![];
    let mut i = 0;
    while stream.len() - i >= 4 {
        let n = if compressed { stream[i] as usize * 4 } else { stream[i] as usize };
        if n < 4 || n > lim {
            break;
        }
        if stream.len() - i < n {
            break;
        }
        out.push(&stream[i..i + n]);
        i += n;
    }
    (out, &stream[i..])
}
