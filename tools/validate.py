#!/opt/veriftools/pyvenv/bin/python
"""Validate MANIFEST.json and all evidence files against the given schemas."""
import json, sys, os, glob
import jsonschema
ROOT = os.path.dirname(os.path.dirname(os.path.abspath(__file__)))
ok = True
m = json.load(open(os.path.join(ROOT, "MANIFEST.json")))
try:
    jsonschema.validate(m, json.load(open("/root/.vp/MANIFEST.schema.json")))
    print("MANIFEST ok:", len(m["checks"]), "checks,", len(m.get("not_applicable", [])), "not applicable")
except Exception as e:
    ok = False; print("MANIFEST INVALID", e)
es = json.load(open("/root/.vp/EVIDENCE.schema.json"))
for c in m["checks"]:
    f = c["evidence_file"]
    if not os.path.exists(f):
        print("missing evidence", f); ok = False; continue
    try:
        ev = json.load(open(f)); jsonschema.validate(ev, es)
        assert ev["level"] == c["level_claimed"]["category"], "level mismatch"
        print("evidence ok", os.path.basename(f), ev["tier"], ev["coverage"]["evaluations"], ev["coverage"]["distinct_nontrivial"])
    except Exception as e:
        ok = False; print("EVIDENCE INVALID", f, str(e)[:300])
ids = {json.loads(l)["id"] for l in open(os.path.join(ROOT, "properties.jsonl"))}
claimed = {c["property_id"] for c in m["checks"]}; na = {x["property_id"] for x in m.get("not_applicable", [])}
if claimed | na != ids or claimed & na:
    ok = False; print("property accounting wrong", ids - claimed - na, claimed & na)
sys.exit(0 if ok else 1)
