//! Sessions over connections obtained the way users obtain them: `Builder::tcp(addr).connect_blocking()` /
//! `connect_async()` against a loopback peer. One session serves three properties: the peer sends a frame stream
//! in arbitrary TCP segments (C05), keep-alives in it must be answered (C07), and the packets the client writes
//! afterwards must arrive complete and in order (C06). Each check judges the outcome with its own oracle.

use std::{
    io::{Read, Write},
    net::TcpListener,
    time::Duration,
};

use insim::{builder::Builder, net::Mode, Packet};

use crate::{
    corpus::{real_encode, Corpus, Enc},
    refspec::{limit, GenOpts, TextMode},
    rng::Rng,
    sess::expected_results,
    transport::{classify, ref_frames, Impl, ReadResult},
};

pub struct TcpOutcome {
    pub label: String,
    pub stream: Vec<u8>,
    /// results of the client's reads up to and including the first Disconnected / IO error
    pub results: Vec<ReadResult>,
    pub expected: Vec<ReadResult>,
    pub keepalives: usize,
    /// everything the peer received after the 44-byte ISI
    pub outgoing: Vec<u8>,
    /// frames of the packets whose write returned Ok, in call order
    pub written_frames: Vec<Vec<u8>>,
    pub write_error: Option<String>,
    pub segments: usize,
}

/// `stream` is sent by the peer in random segments (with small pauses so that the kernel does not coalesce all of
/// them); the client reads until the end, then writes `n_writes` packets and drops the connection.
pub fn builder_tcp_session(c: &Corpus, r: &mut Rng, which: Impl, compressed: bool, stream: Vec<u8>, n_writes: usize) -> Result<TcpOutcome, String> {
    let label = format!("builder-tcp-{}-{}", which.name(), if compressed { "compressed" } else { "uncompressed" });
    let listener = TcpListener::bind("127.0.0.1:0").map_err(|e| e.to_string())?;
    let addr = listener.local_addr().map_err(|e| e.to_string())?;
    // segmentation plan
    let mut cuts = vec![];
    let mut pos = 0;
    let style = r.below(4);
    while pos < stream.len() {
        let k = match style {
            0 => 1 + r.usize_below(7),
            1 => 1 + r.usize_below(200),
            2 => 1 + r.usize_below(3000),
            _ => {
                if r.chance(1, 2) {
                    1 + r.usize_below(5)
                } else {
                    500 + r.usize_below(7000)
                }
            },
        }
        .min(stream.len() - pos);
        cuts.push(k);
        pos += k;
    }
    let segments = cuts.len();
    let pause_every = 1 + r.usize_below(8);
    let (frames, _) = ref_frames(&stream, compressed);
    let keepalives = frames.iter().filter(|f| f.len() == 4 && f[1] == 3 && f[2] == 0 && f[3] == 0).count();
    let (expected, _) = expected_results(&stream, compressed);
    let stream2 = stream.clone();
    let server = std::thread::spawn(move || -> Result<Vec<u8>, String> {
        let (mut s, _) = listener.accept().map_err(|e| e.to_string())?;
        s.set_nodelay(true).ok();
        s.set_read_timeout(Some(Duration::from_secs(30))).map_err(|e| e.to_string())?;
        let mut isi = [0u8; 44];
        s.read_exact(&mut isi).map_err(|e| format!("no ISI: {e}"))?;
        let mut pos = 0;
        for (i, k) in cuts.iter().enumerate() {
            s.write_all(&stream2[pos..pos + k]).map_err(|e| format!("peer write: {e}"))?;
            pos += k;
            if i % pause_every == 0 {
                std::thread::sleep(Duration::from_micros(150));
            }
        }
        // end of stream for the client; its replies and what it writes afterwards are collected to EOF
        s.shutdown(std::net::Shutdown::Write).ok();
        let mut got = vec![];
        let mut b = [0u8; 4096];
        loop {
            match s.read(&mut b) {
                Ok(0) => break,
                Ok(n) => got.extend_from_slice(&b[..n]),
                Err(e) => return Err(format!("peer read: {e}")),
            }
        }
        Ok(got)
    });
    let b = Builder::new().tcp(addr).mode(if compressed { Mode::Compressed } else { Mode::Uncompressed }).verify_version(false).connect_timeout(Duration::from_secs(10));
    // packets to write
    let mut packets: Vec<(Packet, Vec<u8>)> = vec![];
    let mut guard = 0;
    while packets.len() < n_writes && guard < 10 * n_writes + 10 {
        guard += 1;
        let lay = r.pick(c.kinds());
        let o = GenOpts { text: if r.chance(1, 3) { TextMode::Mixed } else { TextMode::Ascii }, max_list: Some(if r.chance(1, 8) { 60 } else { 6 }), boundary: 4, hostile: false };
        if let Ok((_, pk)) = c.packet(r, lay, &o) {
            if let Enc::Ok(e) = real_encode(&pk, compressed) {
                if e.len() <= limit(compressed) {
                    packets.push((pk, e));
                }
            }
        }
    }
    let mut results = vec![];
    let mut written_frames = vec![];
    let mut write_error = None;
    let cap = expected.len() + 6;
    match which {
        Impl::Blocking => {
            let mut f = b.connect_blocking().map_err(|e| format!("{label}: connect_blocking: {e}"))?;
            loop {
                let x = classify(f.read());
                let end = matches!(x, ReadResult::Disconnected | ReadResult::Io(_) | ReadResult::Other(_));
                results.push(x);
                if end || results.len() > cap {
                    break;
                }
            }
            for (pk, e) in &packets {
                match f.write(pk.clone()) {
                    Ok(()) => written_frames.push(e.clone()),
                    Err(e) => {
                        write_error = Some(e.to_string());
                        break;
                    },
                }
            }
            drop(f);
        },
        Impl::Tokio => {
            let rt = tokio::runtime::Builder::new_current_thread().enable_all().build().map_err(|e| e.to_string())?;
            rt.block_on(async {
                let mut f = b.connect_async().await.map_err(|e| format!("{label}: connect_async: {e}"))?;
                loop {
                    let x = match tokio::time::timeout(Duration::from_secs(60), f.read()).await {
                        Ok(x) => classify(x),
                        Err(_) => return Err(format!("{label}: read watchdog after {} results", results.len())),
                    };
                    let end = matches!(x, ReadResult::Disconnected | ReadResult::Io(_) | ReadResult::Other(_));
                    results.push(x);
                    if end || results.len() > cap {
                        break;
                    }
                }
                for (pk, e) in &packets {
                    match tokio::time::timeout(Duration::from_secs(60), f.write(pk.clone())).await {
                        Ok(Ok(())) => written_frames.push(e.clone()),
                        Ok(Err(e)) => {
                            write_error = Some(e.to_string());
                            break;
                        },
                        Err(_) => return Err(format!("{label}: write watchdog")),
                    }
                }
                drop(f);
                Ok::<(), String>(())
            })?;
        },
    }
    let outgoing = server.join().map_err(|_| format!("{label}: peer thread panicked"))?.map_err(|e| format!("{label}: {e}"))?;
    Ok(TcpOutcome { label, stream, results, expected, keepalives, outgoing, written_frames, write_error, segments })
}
