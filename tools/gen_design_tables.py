#!/usr/bin/env python3
"""Fills the <!-- BEGIN:fixes --> and <!-- BEGIN:selftest --> blocks of DESIGN.md from known_findings.json and mutants/RESULTS.json."""
import json, os, re
ROOT = os.path.dirname(os.path.dirname(os.path.abspath(__file__)))
d = open(os.path.join(ROOT, "DESIGN.md")).read()
k = json.load(open(os.path.join(ROOT, "known_findings.json")))
rows = ["| # | Property | Commit | What failed (witness / signatures) |", "|---|---|---|---|"]
for i, f in enumerate(k["fixed"], 1):
    m = re.match(r"fixed: property=(C\d+) (\w+) (.*)", f)
    rows.append(f"| {i} | {m.group(1)} | `{m.group(2)}` | {m.group(3).replace('|', '/')} |")
block = "<!-- BEGIN:fixes -->\n" + "\n".join(rows) + "\n<!-- END:fixes -->"
d = re.sub(r"<!-- BEGIN:fixes -->.*?<!-- END:fixes -->", lambda m: block, d, flags=re.S)
rf = os.path.join(ROOT, "mutants", "RESULTS.json")
rows = ["| Change | Needs | Property | Verdict | First signature |", "|---|---|---|---|---|"]
if os.path.exists(rf):
    res = json.load(open(rf))
    for name in sorted(res):
        path = os.path.join(ROOT, name)
        needs = ""
        if os.path.exists(path):
            if name.endswith("patch.diff"):
                mp = os.path.join(os.path.dirname(path), "meta.json")
                if os.path.exists(mp):
                    needs = json.load(open(mp)).get("needs_to_manifest", "")
                    needs = re.sub(r"^#+ *What (it|is) needs?(ed)?( for it)? to manifest[^\n]*", "", needs, flags=re.I).strip()
                    needs = re.sub(r"\s+", " ", needs)[:160]
            else:
                m = re.search(r"^# needs: (.*)$", open(path).read(1500), re.M)
                needs = m.group(1)[:140] if m else ""
        else:
            continue
        for pid, r in sorted(res[name].items()):
            sig = re.search(r"violation\[0\] (\S+):", r.get("detail", ""))
            short = name.replace("mutants/", "").replace("seeded/", "").replace(".patch", "").replace("/patch.diff", "")
            rows.append(f"| {short} | {needs.replace('|', '/')} | {pid} | {r['verdict']} | {sig.group(1) if sig else ''} |")
block2 = "<!-- BEGIN:selftest -->\n" + "\n".join(rows) + "\n<!-- END:selftest -->"
d = re.sub(r"<!-- BEGIN:selftest -->.*?<!-- END:selftest -->", lambda m: block2, d, flags=re.S)
open(os.path.join(ROOT, "DESIGN.md"), "w").write(d)
print("tables written:", len(k["fixed"]), "fixes")
