//! Packet corpus: spec-driven assignments bound to typed packets, plus thin wrappers around the real codec.

use bytes::BytesMut;
use insim::{
    net::{Codec, Mode},
    Packet,
};
use insim_core::string::codepages::to_lossy_bytes;

use crate::{
    bind,
    ctx::guarded,
    refspec::{FieldMap, Gen, GenOpts, Layout, Spec, Val},
    rng::Rng,
};

pub const MODES: [bool; 2] = [true, false]; // compressed?

pub fn mode_name(compressed: bool) -> &'static str {
    if compressed {
        "compressed"
    } else {
        "uncompressed"
    }
}

pub fn codec(compressed: bool) -> Codec {
    Codec::new(if compressed { Mode::Compressed } else { Mode::Uncompressed })
}

#[derive(Debug, Clone)]
pub enum Enc {
    Ok(Vec<u8>),
    Err(String),
    Panic(String),
}

pub fn real_encode(p: &Packet, compressed: bool) -> Enc {
    let c = codec(compressed);
    match guarded(|| c.encode(p)) {
        Ok(Ok(b)) => Enc::Ok(b.to_vec()),
        Ok(Err(e)) => Enc::Err(crate::ctx::short_err(&e.to_string())),
        Err(pn) => Enc::Panic(pn),
    }
}

#[derive(Debug, Clone)]
pub enum Dec {
    Packet(Packet, usize),
    NeedMore,
    Err(String, usize),
    Panic(String),
}

/// Decode from a buffer holding `bytes`; the usize is the number of bytes left in the buffer.
pub fn real_decode(bytes: &[u8], compressed: bool) -> Dec {
    let c = codec(compressed);
    let mut buf = BytesMut::from(bytes);
    match guarded(|| {
        let r = c.decode(&mut buf);
        (r, buf.len())
    }) {
        Ok((Ok(Some(p)), left)) => Dec::Packet(p, left),
        Ok((Ok(None), _)) => Dec::NeedMore,
        Ok((Err(e), left)) => Dec::Err(crate::ctx::short_err(&e.to_string()), left),
        Err(pn) => Dec::Panic(pn),
    }
}

/// Real text encoder (judged by C10), used to size and image non-ASCII text.
pub fn real_text_enc(s: &str, raw: bool) -> Vec<u8> {
    if raw {
        s.as_bytes().to_vec()
    } else {
        to_lossy_bytes(s).to_vec()
    }
}

pub fn enc_len(s: &str) -> usize {
    to_lossy_bytes(s).len()
}

pub struct Corpus {
    pub spec: Spec,
    pub tracks: Vec<String>,
    pub mixed_pool: Vec<char>,
}

impl Corpus {
    pub fn load() -> Result<Corpus, String> {
        let spec = Spec::load()?;
        let tracks = bind::track_codes();
        // the second line holds double-byte characters with awkward bytes: trail byte '^' 0x5E / '|' 0x7C / '\\' 0x5C / '@',
        // first and last lead bytes, CP932 / GBK / Big5 extension rows (lead bytes 0xF9..0xFE); found with CPython's
        // codecs, kept only if the library itself round-trips the single character (the tables are C10's business)
        let candidates = "éþÿßÀñ¿ěščřžłőЖяюбΩλώάışğİūņķģあア美日本語ﾏ한국어中文測試简体\
                          　、―／～－÷□∧≒真漾濬濘烟鍈增薰タ丂丄乗乛乣亅亐仩伬佮恀燶燸爘癪繞繺繼纜衈郳郶鄚館鶂鷢麁鼆齹갂갵걖걽겴곟品行形禍爻﹏）﹄貢錐餐餞嚐胣赨趑輋禭龤";
        let mixed_pool: Vec<char> = candidates
            .chars()
            .filter(|c| !c.is_whitespace() || *c == '　')
            .filter(|c| {
                let s = c.to_string();
                guarded(|| insim_core::string::codepages::to_lossy_string(&to_lossy_bytes(&s)).to_string() == s).unwrap_or(false)
            })
            .collect();
        Ok(Corpus { spec, tracks, mixed_pool })
    }

    pub fn gen(&self) -> Gen<'_> {
        Gen { spec: &self.spec, tracks: &self.tracks, enc_len: &enc_len, mixed_pool: &self.mixed_pool }
    }

    pub fn kinds(&self) -> &[Layout] {
        &self.spec.packets
    }

    /// Generate an in-domain assignment and its typed packet.
    pub fn packet(&self, r: &mut Rng, lay: &Layout, o: &GenOpts) -> Result<(FieldMap, Packet), String> {
        let fm = self.gen().packet(r, lay, o);
        let p = guarded(|| bind::from_fields(&self.spec, lay, &fm)).map_err(|pn| format!("binding panicked: {pn}"))??;
        Ok((fm, p))
    }

    /// A valid frame of the given kind built by the real encoder (None if it refuses).
    pub fn frame(&self, r: &mut Rng, lay: &Layout, o: &GenOpts, compressed: bool) -> Option<(Packet, Vec<u8>)> {
        let (_, p) = self.packet(r, lay, o).ok()?;
        match real_encode(&p, compressed) {
            Enc::Ok(b) => Some((p, b)),
            _ => None,
        }
    }

    /// A valid frame built by the reference codec (independent of the real encoder).
    pub fn ref_frame(&self, r: &mut Rng, lay: &Layout, o: &GenOpts, compressed: bool) -> Option<(FieldMap, Vec<u8>)> {
        let fm = self.gen().packet(r, lay, o);
        let img = self.spec.encode(lay, &fm, compressed, &real_text_enc);
        img.representable.ok()?;
        Some((fm, img.frame))
    }
}

pub fn set(fm: &mut FieldMap, k: &str, v: Val) {
    let _ = fm.insert(k.to_string(), v);
}

/// Name the first field at which two Debug renderings differ.
pub fn debug_diff_field(a: &str, b: &str) -> String {
    let pos = a.bytes().zip(b.bytes()).position(|(x, y)| x != y).unwrap_or(a.len().min(b.len()));
    // walk back to the nearest "name: " token (field names are lower-case identifiers)
    let mut pos = pos.min(a.len());
    while !a.is_char_boundary(pos) {
        pos -= 1; // the renderings may first differ inside a multi-byte character
    }
    let head = &a[..pos];
    let mut name = String::from("?");
    let bytes = head.as_bytes();
    let mut i = bytes.len();
    while i > 0 {
        if bytes[i - 1] == b':' && (i == bytes.len() || bytes[i] == b' ') {
            let mut j = i - 1;
            while j > 0 && (bytes[j - 1].is_ascii_lowercase() || bytes[j - 1].is_ascii_digit() || bytes[j - 1] == b'_') {
                j -= 1;
            }
            let preceded_ok = j == 0 || bytes[j - 1] == b' ' || bytes[j - 1] == b'{' || bytes[j - 1] == b'(';
            if j < i - 1 && preceded_ok && bytes[j].is_ascii_lowercase() {
                name = head[j..i - 1].to_string();
                break;
            }
        }
        i -= 1;
    }
    name
}

/// Debug rendering with set-valued fields (`inner: {a, b, c}`) put in sorted order: the sets are
/// unordered collections whose iteration order is an artefact of how they were built.
pub fn norm_debug<T: std::fmt::Debug>(t: &T) -> String {
    let d = format!("{:?}", t);
    let mut out = String::with_capacity(d.len());
    let mut rest = d.as_str();
    while let Some(i) = rest.find("inner: {") {
        let (head, tail) = rest.split_at(i + "inner: {".len());
        out.push_str(head);
        if let Some(j) = tail.find('}') {
            let mut items: Vec<&str> = tail[..j].split(", ").filter(|x| !x.is_empty()).collect();
            items.sort();
            out.push_str(&items.join(", "));
            rest = &tail[j..];
        } else {
            rest = tail;
            break;
        }
    }
    out.push_str(rest);
    out
}
