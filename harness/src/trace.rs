//! A `tracing` subscriber that enables every level and formats every field of every span and event, as a
//! logging set-up with `RUST_LOG=trace` would. `tracing` only evaluates the arguments of an event when a
//! subscriber enables it, so code inside log statements and `#[instrument]` attributes is dead in a process
//! without one; the "traced" stage runs the same checks with this subscriber installed.

use std::sync::atomic::{AtomicU64, Ordering};

use tracing::{
    field::{Field, Visit},
    span, Event, Metadata, Subscriber,
};

pub static EVENTS: AtomicU64 = AtomicU64::new(0);
pub static SPANS: AtomicU64 = AtomicU64::new(0);
pub static BYTES: AtomicU64 = AtomicU64::new(0);

struct Sink;

impl Visit for Sink {
    fn record_debug(&mut self, field: &Field, value: &dyn std::fmt::Debug) {
        let s = format!("{}={:?}", field.name(), value);
        let _ = BYTES.fetch_add(std::hint::black_box(s).len() as u64, Ordering::Relaxed);
    }
}

pub struct FormatEverything;

impl Subscriber for FormatEverything {
    fn enabled(&self, _metadata: &Metadata<'_>) -> bool {
        true
    }
    fn new_span(&self, attrs: &span::Attributes<'_>) -> span::Id {
        attrs.record(&mut Sink);
        span::Id::from_u64(1 + SPANS.fetch_add(1, Ordering::Relaxed))
    }
    fn record(&self, _span: &span::Id, values: &span::Record<'_>) {
        values.record(&mut Sink);
    }
    fn record_follows_from(&self, _span: &span::Id, _follows: &span::Id) {}
    fn event(&self, event: &Event<'_>) {
        let _ = EVENTS.fetch_add(1, Ordering::Relaxed);
        event.record(&mut Sink);
    }
    fn enter(&self, _span: &span::Id) {}
    fn exit(&self, _span: &span::Id) {}
}

/// Install the subscriber for the whole process. Returns false if another one is already set.
pub fn install() -> bool {
    tracing::subscriber::set_global_default(FormatEverything).is_ok()
}
