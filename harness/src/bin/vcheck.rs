use ivh::{
    checks,
    ctx::{unhex, Ctx, Tier, EXIT_INCONCLUSIVE},
    hang,
};

fn usage() -> ! {
    eprintln!("usage: vcheck <Cxx> [--tier quick|thorough] [--seed N] [--stage S] [--shard i/n] [--replay file] [--hang-case hex]");
    std::process::exit(EXIT_INCONCLUSIVE)
}

fn main() {
    let args: Vec<String> = std::env::args().skip(1).collect();
    if args.is_empty() || args[0] == "--help" {
        usage();
    }
    let id = args[0].clone();
    let mut tier = match std::env::var("VERIF_TIER").as_deref() {
        Ok("thorough") => Tier::Thorough,
        _ => Tier::Quick,
    };
    let mut seed: u64 = std::env::var("VERIF_SEED").ok().and_then(|s| s.parse().ok()).unwrap_or(1);
    let mut stage = None;
    let mut shard = (0u64, 1u64);
    let mut replay = None;
    let mut i = 1;
    while i < args.len() {
        match args[i].as_str() {
            "--tier" => {
                i += 1;
                tier = match args.get(i).map(|s| s.as_str()) {
                    Some("quick") => Tier::Quick,
                    Some("thorough") => Tier::Thorough,
                    _ => usage(),
                };
            },
            "--seed" => {
                i += 1;
                seed = args.get(i).and_then(|s| s.parse().ok()).unwrap_or_else(|| usage());
            },
            "--stage" => {
                i += 1;
                stage = Some(args.get(i).cloned().unwrap_or_else(|| usage()));
            },
            "--shard" => {
                i += 1;
                let s = args.get(i).cloned().unwrap_or_else(|| usage());
                let (a, b) = s.split_once('/').unwrap_or_else(|| usage());
                shard = (a.parse().unwrap_or_else(|_| usage()), b.parse().unwrap_or_else(|_| usage()));
            },
            "--replay" => {
                i += 1;
                let p = args.get(i).cloned().unwrap_or_else(|| usage());
                let text = std::fs::read_to_string(&p).unwrap_or_else(|e| {
                    eprintln!("cannot read {p}: {e}");
                    std::process::exit(EXIT_INCONCLUSIVE)
                });
                replay = Some(serde_json::from_str::<serde_json::Value>(&text).unwrap_or_else(|e| {
                    eprintln!("cannot parse {p}: {e}");
                    std::process::exit(EXIT_INCONCLUSIVE)
                }));
            },
            "--hang-case" => {
                i += 1;
                let h = args.get(i).cloned().unwrap_or_else(|| usage());
                checks::hang_case(&id, &unhex(&h));
                std::process::exit(0);
            },
            _ => usage(),
        }
        i += 1;
    }
    // --replay: re-execute the recorded run (every random choice derives from the seed and the tier, and
    // enumerations do not depend on either), and say whether the recorded signature shows up again
    let mut replay_sig: Option<String> = None;
    if let Some(r) = &replay {
        if let Some(s) = r.get("seed").and_then(|x| x.as_u64()) {
            seed = s;
        }
        match r.get("tier").and_then(|x| x.as_str()) {
            Some("thorough") => tier = Tier::Thorough,
            Some("quick") => tier = Tier::Quick,
            _ => {},
        }
        replay_sig = r.get("signature").and_then(|x| x.as_str()).map(|x| x.to_string());
        if let Some(argv) = r.get("argv") {
            println!("this replay file records a sanitizer stage; re-run it with: {}", argv);
        }
        println!("[replay] property={} seed={} tier={} signature={:?}", id, seed, tier.name(), replay_sig);
    }
    let Some(f) = checks::lookup(&id) else {
        eprintln!("unknown check {id}");
        std::process::exit(EXIT_INCONCLUSIVE)
    };
    let mut ctx = Ctx::new(&id, tier, seed);
    if stage.as_deref() == Some("traced") && !ivh::trace::install() {
        eprintln!("cannot install the tracing subscriber");
        std::process::exit(EXIT_INCONCLUSIVE)
    }
    ctx.stage = stage;
    ctx.shard = shard;
    ctx.replay = replay;

    // hang journal watchdog (only matters for the checks that publish cases); Miri cannot spawn the re-check process
    if !cfg!(miri) {
        let id2 = id.clone();
        let tier2 = tier;
        hang::start_watchdog(&id, vec![], move |v| {
            let mut c = Ctx::new(&id2, tier2, seed);
            match v {
                hang::HangVerdict::Confirmed(case) => {
                    c.part.evaluations = 1;
                    c.violation(
                        format!("{id2}/hang"),
                        format!("call did not return: first observed stuck for {}s under load, then alone in a fresh process for {}s", hang::SUSPECT_SECS, hang::CONFIRM_SECS),
                        serde_json::json!({"case_hex": ivh::ctx::hex(&case), "case_lossy": String::from_utf8_lossy(&case)}),
                    );
                },
                hang::HangVerdict::NotReproduced(case) => {
                    c.inconclusive(format!("a case appeared stuck for {}s but returned when re-run alone (machine load?): {}", hang::SUSPECT_SECS, ivh::ctx::hex(&case)));
                },
            }
            let code = c.finish("exploration", "hang watchdog fired; the run did not complete", false);
            std::process::exit(code);
        });
    }

    let (level, rule, exhaustive) = match ivh::ctx::guarded(|| f(&mut ctx)) {
        Ok(x) => x,
        Err(pn) => {
            // an unguarded call panicked (in the harness or in the library): never a silent crash
            ctx.inconclusive(format!("the check itself panicked: {pn}"));
            ("exploration", "run aborted by a panic outside the monitors".to_string(), false)
        },
    };
    if ctx.stage.as_deref() == Some("traced") {
        use std::sync::atomic::Ordering;
        let (ev, sp) = (ivh::trace::EVENTS.load(Ordering::Relaxed), ivh::trace::SPANS.load(Ordering::Relaxed));
        ctx.extra("tracing_events_formatted", serde_json::json!(ev));
        ctx.extra("tracing_spans_formatted", serde_json::json!(sp));
        ctx.extra("tracing_bytes_formatted", serde_json::json!(ivh::trace::BYTES.load(Ordering::Relaxed)));
        if ev + sp == 0 {
            ctx.inconclusive("the tracing subscriber was installed but received no span or event".to_string());
        }
    }
    if let Some(sig) = &replay_sig {
        let again = ctx.part.violations.iter().any(|v| &v.signature == sig);
        println!("[replay] recorded signature {} {}", sig, if again { "REPRODUCED" } else { "did not reproduce on the current tree" });
    }
    let code = ctx.finish(level, &rule, exhaustive);
    std::process::exit(code);
}
