//! Typed bindings: FieldMap (wire-level, spec-named) -> `insim::Packet`, written against public field and
//! variant NAMES only. Numbers (offsets, enumerant values, bit positions, units) never come from here.

use std::{
    any::{type_name, TypeId},
    collections::HashMap,
    fmt::Debug,
    io::Cursor,
    net::Ipv4Addr,
    str::FromStr,
    sync::Mutex,
    time::Duration,
};

use insim::{
    identifiers::{ClickId, ConnectionId, PlayerId, RequestId},
    insim::*,
    relay::*,
    Packet,
};
use insim_core::{binrw::BinRead, game_version::GameVersion, point::Point, track::Track, vehicle::Vehicle};

use crate::refspec::{FieldMap, Kind, Layout, SmallArm, Spec, Val};

include!(concat!(env!("OUT_DIR"), "/tracks.rs"));

pub fn norm(s: &str) -> String {
    s.chars().filter(|c| *c != '_').map(|c| c.to_ascii_uppercase()).collect()
}

static ENUM_CACHE: Mutex<Option<HashMap<(TypeId, String), u8>>> = Mutex::new(None);

/// Find the typed enum value whose Debug name equals `name` (case/underscore-insensitive) by
/// decoding each of the 256 possible wire bytes. The wire NUMBER found here is never compared with
/// anything: the oracle compares what the encoder emits for this typed value with the spec's number.
pub fn en<T>(name: &str) -> Result<T, String>
where
    T: for<'a> BinRead<Args<'a> = ()> + Debug + 'static,
{
    let key = (TypeId::of::<T>(), norm(name));
    let cached = ENUM_CACHE.lock().unwrap().get_or_insert_with(HashMap::new).get(&key).copied();
    let try_byte = |b: u8| -> Option<T> {
        let v = T::read_le(&mut Cursor::new([b])).ok()?;
        (norm(&format!("{:?}", v)) == key.1).then_some(v)
    };
    if let Some(b) = cached {
        if let Some(v) = try_byte(b) {
            return Ok(v);
        }
    }
    for b in 0..=255u8 {
        if let Some(v) = try_byte(b) {
            let _ = ENUM_CACHE.lock().unwrap().get_or_insert_with(HashMap::new).insert(key, b);
            return Ok(v);
        }
    }
    Err(format!("no typed counterpart for enumerant {name} of {}", type_name::<T>()))
}

pub fn fl<T: bitflags::Flags>(names: &[String]) -> Result<T, String> {
    let mut acc = T::empty();
    for n in names {
        let f = T::FLAGS
            .iter()
            .find(|f| norm(f.name()) == norm(n))
            .ok_or_else(|| format!("no typed counterpart for flag {n} of {}", type_name::<T>()))?;
        acc.insert(T::from_bits_retain(f.value().bits()));
    }
    Ok(acc)
}

pub fn vehicle_by_name(name: &str) -> Result<Vehicle, String> {
    let b = name.as_bytes();
    let v = Vehicle::read_le(&mut Cursor::new([b[0], b[1], b[2], 0])).map_err(|e| format!("vehicle {name}: {e}"))?;
    if v.to_string() == name {
        Ok(v)
    } else {
        Err(format!("no typed counterpart for car {name}"))
    }
}

pub fn track_by_code(code: &str) -> Result<Track, String> {
    all_tracks()
        .into_iter()
        .find(|(n, _)| n.to_ascii_uppercase() == code)
        .map(|x| x.1)
        .ok_or_else(|| format!("no Track variant named {code}"))
}

pub fn track_codes() -> Vec<String> {
    all_tracks().into_iter().map(|(n, _)| n.to_ascii_uppercase()).collect()
}

/// The spec's statement of the race length byte.
pub fn racelaps_of(v: u8) -> RaceLaps {
    match v {
        0 => RaceLaps::Practice,
        1..=99 => RaceLaps::Laps(v as usize),
        100..=190 => RaceLaps::Laps((v as usize - 100) * 10 + 100),
        191..=238 => RaceLaps::Hours(v as usize - 190),
        _ => RaceLaps::Practice,
    }
}

/// IP octet order is unpinned: mirror whatever order the library uses (discovered once).
pub fn ip_from_wire(b: &[u8]) -> Ipv4Addr {
    use std::sync::OnceLock;
    static REVERSED: OnceLock<bool> = OnceLock::new();
    let rev = *REVERSED.get_or_init(|| {
        // NCI frame: size 4 (compressed), type 57, reqi, ucid, language, license, sp, sp, userid(4), ip(4)
        let f = [4u8, 57, 0, 0, 0, 0, 0, 0, 0, 0, 0, 0, 1, 2, 3, 4];
        let mut buf = bytes::BytesMut::from(&f[..]);
        match insim::net::Codec::new(insim::net::Mode::Compressed).decode(&mut buf) {
            Ok(Some(Packet::Nci(n))) => n.ipaddress == Ipv4Addr::new(4, 3, 2, 1),
            _ => true,
        }
    });
    if rev {
        Ipv4Addr::new(b[3], b[2], b[1], b[0])
    } else {
        Ipv4Addr::new(b[0], b[1], b[2], b[3])
    }
}

/// Unit (ms per wire count) the library itself uses for an unpinned SMALL duration sub-type.
pub fn small_self_unit(subt_num: u8) -> u64 {
    let f = [2u8, 4, 0, subt_num, 1, 0, 0, 0];
    let mut buf = bytes::BytesMut::from(&f[..]);
    match insim::net::Codec::new(insim::net::Mode::Compressed).decode(&mut buf) {
        Ok(Some(Packet::Small(s))) => match s.subt {
            SmallType::Ssp(d) | SmallType::Ssg(d) | SmallType::Stp(d) | SmallType::Rtp(d) | SmallType::Nli(d) => d.as_millis() as u64,
            _ => 1,
        },
        _ => 1,
    }
}

pub fn rip_self_unit() -> u64 {
    let mut f = vec![20u8, 48, 0, 0, 0, 0, 0, 0, 1, 0, 0, 0, 0, 0, 0, 0];
    f.resize(80, 0);
    let mut buf = bytes::BytesMut::from(&f[..]);
    match insim::net::Codec::new(insim::net::Mode::Compressed).decode(&mut buf) {
        Ok(Some(Packet::Rip(r))) => (r.ctime.as_millis() as u64).max(1),
        _ => 1,
    }
}

pub struct B<'a> {
    pub spec: &'a Spec,
    pub lay: &'a Layout,
    pub fm: &'a FieldMap,
}

type R<T> = Result<T, String>;

impl<'a> B<'a> {
    fn get(&self, n: &str) -> R<&'a Val> {
        self.fm.get(n).ok_or_else(|| format!("{}: field {n} missing from the assignment", self.lay.name))
    }
    fn u(&self, n: &str) -> R<u64> {
        match self.get(n)? {
            Val::U(v) => Ok(*v),
            Val::I(v) => Ok(*v as u64),
            o => Err(format!("{n}: not an integer: {:?}", o)),
        }
    }
    fn u8(&self, n: &str) -> R<u8> {
        Ok(self.u(n)? as u8)
    }
    fn u16(&self, n: &str) -> R<u16> {
        Ok(self.u(n)? as u16)
    }
    fn u32(&self, n: &str) -> R<u32> {
        Ok(self.u(n)? as u32)
    }
    fn i16(&self, n: &str) -> R<i16> {
        Ok(self.u(n)? as u16 as i16)
    }
    fn i32(&self, n: &str) -> R<i32> {
        Ok(self.u(n)? as u32 as i32)
    }
    fn f32(&self, n: &str) -> R<f32> {
        match self.get(n)? {
            Val::F(b) => Ok(f32::from_bits(*b)),
            o => Err(format!("{n}: not f32: {:?}", o)),
        }
    }
    fn b(&self, n: &str) -> R<bool> {
        Ok(self.u(n)? != 0)
    }
    fn ch(&self, n: &str) -> R<char> {
        Ok(self.u(n)? as u8 as char)
    }
    fn t(&self, n: &str) -> R<String> {
        match self.get(n)? {
            Val::T(s) => Ok(s.clone()),
            o => Err(format!("{n}: not text: {:?}", o)),
        }
    }
    fn e<T>(&self, n: &str) -> R<T>
    where
        T: for<'x> BinRead<Args<'x> = ()> + Debug + 'static,
    {
        match self.get(n)? {
            Val::E(name) => en::<T>(name),
            o => Err(format!("{n}: not an enumerant: {:?}", o)),
        }
    }
    fn f<T: bitflags::Flags>(&self, n: &str) -> R<T> {
        match self.get(n)? {
            Val::S(names) => fl::<T>(names),
            o => Err(format!("{n}: not a flag set: {:?}", o)),
        }
    }
    fn unit(&self, n: &str) -> R<u64> {
        let f = self.lay.fields.iter().find(|f| f.name == n).ok_or_else(|| format!("no field {n}"))?;
        match &f.kind {
            Kind::Dur { unit, pinned: true, .. } => Ok(*unit),
            Kind::Dur { pinned: false, .. } if self.lay.name == "RIP" => Ok(rip_self_unit()),
            Kind::Dur { unit, .. } => Ok(*unit),
            _ => Err(format!("{n} is not a duration")),
        }
    }
    fn d(&self, n: &str) -> R<Duration> {
        Ok(Duration::from_millis(self.u(n)? * self.unit(n)?))
    }
    fn veh(&self, n: &str) -> R<Vehicle> {
        match self.get(n)? {
            Val::T(name) => vehicle_by_name(name),
            Val::U(id) => Ok(Vehicle::Mod(*id as u32)),
            Val::E(_) => Ok(Vehicle::Unknown),
            o => Err(format!("{n}: not a vehicle: {:?}", o)),
        }
    }
    fn trk(&self, n: &str) -> R<Track> {
        track_by_code(&self.t(n)?)
    }
    fn rl(&self, n: &str) -> R<RaceLaps> {
        Ok(racelaps_of(self.u8(n)?))
    }
    fn tyres(&self) -> R<[TyreCompound; 4]> {
        Ok([self.e("Tyre0")?, self.e("Tyre1")?, self.e("Tyre2")?, self.e("Tyre3")?])
    }
    fn fuel(&self, n: &str) -> R<Fuel> {
        let v = self.u8(n)?;
        Ok(if v == 255 { Fuel::No } else { Fuel::Percentage(v) })
    }
    fn fuel200(&self, n: &str) -> R<Fuel200> {
        let v = self.u8(n)?;
        Ok(if v == 255 { Fuel200::No } else { Fuel200::Percentage(v) })
    }
    fn reqi(&self) -> R<RequestId> {
        Ok(RequestId(self.u8("ReqI")?))
    }
    fn plid(&self, n: &str) -> R<PlayerId> {
        Ok(PlayerId(self.u8(n)?))
    }
    fn ucid(&self, n: &str) -> R<ConnectionId> {
        Ok(ConnectionId(self.u8(n)?))
    }
    fn list(&self, n: &str) -> R<&'a Vec<FieldMap>> {
        match self.get(n)? {
            Val::L(v) => Ok(v),
            o => Err(format!("{n}: not a list: {:?}", o)),
        }
    }
    fn sub(&self, st: &str, fm: &'a FieldMap) -> B<'a> {
        B { spec: self.spec, lay: &self.spec.structs[st], fm }
    }
    fn one(&self, n: &str, st: &str) -> R<B<'a>> {
        let l = self.list(n)?;
        Ok(self.sub(st, l.first().ok_or_else(|| format!("{n}: empty"))?))
    }
}

fn car_contact(b: &B) -> R<CarContact> {
    Ok(CarContact { direction: b.u8("Direction")?, heading: b.u8("Heading")?, speed: b.u8("Speed")?, z: b.u8("Zbyte")?, x: b.i16("X")?, y: b.i16("Y")? })
}

fn object_info(b: &B) -> R<ObjectInfo> {
    Ok(ObjectInfo { x: b.i16("X")?, y: b.i16("Y")?, z: b.u8("Zbyte")?, flags: b.u8("Flags")?, index: b.u8("Index")?, heading: b.u8("Heading")? })
}

fn con_info(b: &B) -> R<ConInfo> {
    Ok(ConInfo {
        plid: b.plid("PLID")?,
        info: b.f("Info")?,
        steer: b.u8("Steer")?,
        thr: b.u8("Thr")?,
        brk: b.u8("Brk")?,
        clu: b.u8("Clu")?,
        han: b.u8("Han")?,
        gearsp: b.u8("Gear")?,
        speed: b.u8("Speed")?,
        direction: b.u8("Direction")?,
        heading: b.u8("Heading")?,
        accelf: b.u8("AccelF")?,
        accelr: b.u8("AccelR")?,
        x: b.i16("X")?,
        y: b.i16("Y")?,
    })
}

/// The same set of cars reached through different call histories on the public mutators (insert / remove / clear /
/// from_bits_truncate): the value a user encodes is rarely a freshly built one.
fn cars_set(names: &[String]) -> R<PlcAllowedCarsSet> {
    let targets: Vec<Vehicle> = names.iter().map(|n| vehicle_by_name(n)).collect::<R<Vec<_>>>()?;
    let history = names.iter().fold(names.len() as u64, |h, n| h.wrapping_mul(31).wrapping_add(n.bytes().map(|b| b as u64).sum::<u64>())) % 4;
    let mut s = PlcAllowedCarsSet::default();
    match history {
        1 => {
            // filled with other cars, cleared, then filled with the wanted ones
            for v in [Vehicle::Xfg, Vehicle::Fbm, Vehicle::Bf1, Vehicle::Uf1] {
                let _ = s.insert(v).map_err(|e| e.to_string())?;
            }
            s.clear();
        },
        2 => {
            // a superset from raw bits, the unwanted ones removed one by one
            s = PlcAllowedCarsSet::from_bits_truncate(u32::MAX);
            let all: Vec<Vehicle> = s.iter().cloned().collect();
            for v in all {
                if !targets.contains(&v) {
                    let _ = s.remove(&v);
                }
            }
        },
        3 => {
            // extras inserted and removed again
            for v in [Vehicle::Xrt, Vehicle::Fz5] {
                if !targets.contains(&v) {
                    let _ = s.insert(v.clone()).map_err(|e| e.to_string())?;
                    let _ = s.remove(&v);
                }
            }
        },
        _ => {},
    }
    for v in targets {
        let _ = s.insert(v).map_err(|e| e.to_string())?;
    }
    Ok(s)
}

fn named_flags<T: bitflags::Flags>(name: &str) -> R<T> {
    fl::<T>(&[name.to_string()])
}

fn small_type(b: &B) -> R<SmallType> {
    let Val::E(sub) = b.get("SubT")? else { return Err("SubT".into()) };
    let (_, num, arm) = b.spec.small.iter().find(|(n, _, _)| n == sub).ok_or("small arm")?;
    let dur = |b: &B| -> R<Duration> {
        let unit = match arm {
            SmallArm::Dur { unit, pinned: true } => *unit,
            _ => small_self_unit(*num),
        };
        Ok(Duration::from_millis(b.u("UVal")? * unit))
    };
    Ok(match sub.as_str() {
        "NONE" => SmallType::None,
        "SSP" => SmallType::Ssp(dur(b)?),
        "SSG" => SmallType::Ssg(dur(b)?),
        "VTA" => {
            let Val::E(n) = b.get("UVal")? else { return Err("VTA UVal".into()) };
            SmallType::Vta(en::<VtnAction>(n)?)
        },
        "TMS" => SmallType::Tms(b.u("UVal")? != 0),
        "STP" => SmallType::Stp(dur(b)?),
        "RTP" => SmallType::Rtp(dur(b)?),
        "NLI" => SmallType::Nli(dur(b)?),
        "ALC" => {
            let Val::S(names) = b.get("UVal")? else { return Err("ALC UVal".into()) };
            SmallType::Alc(cars_set(names)?)
        },
        "LCS" => match b.get("UVal")? {
            Val::S(names) => SmallType::Lcs(fl(names)?),
            Val::V(n) => SmallType::Lcs(named_flags(n)?),
            o => return Err(format!("LCS UVal {:?}", o)),
        },
        "LCL" => match b.get("UVal")? {
            Val::S(names) => SmallType::Lcl(fl(names)?),
            Val::V(n) => SmallType::Lcl(named_flags(n)?),
            o => return Err(format!("LCL UVal {:?}", o)),
        },
        o => return Err(format!("no typed counterpart for SMALL sub-type {o}")),
    })
}

fn variant_by_name<T: Copy + Debug>(all: &[T], name: &str) -> R<T> {
    all.iter().copied().find(|v| norm(&format!("{:?}", v)) == norm(name)).ok_or_else(|| format!("no typed counterpart for {name}"))
}

fn cim_mode(b: &B) -> R<CimMode> {
    let Val::E(mode) = b.get("Mode")? else { return Err("Mode".into()) };
    let subname = match b.fm.get("SubMode") {
        Some(Val::E(n)) => Some(n.clone()),
        _ => None,
    };
    Ok(match mode.as_str() {
        "NORMAL" => CimMode::Normal(variant_by_name(
            &[CimSubModeNormal::Normal, CimSubModeNormal::WheelTemps, CimSubModeNormal::WheelDamage, CimSubModeNormal::LiveSettings, CimSubModeNormal::PitInstructions],
            &subname.ok_or("SubMode")?,
        )?),
        "OPTIONS" => CimMode::Options,
        "HOST_OPTIONS" => CimMode::HostOptions,
        "GARAGE" => CimMode::Garage(variant_by_name(
            &[
                CimSubModeGarage::Info,
                CimSubModeGarage::Colours,
                CimSubModeGarage::BrakeTC,
                CimSubModeGarage::Susp,
                CimSubModeGarage::Steer,
                CimSubModeGarage::Drive,
                CimSubModeGarage::Tyres,
                CimSubModeGarage::Aero,
                CimSubModeGarage::Pass,
            ],
            &subname.ok_or("SubMode")?,
        )?),
        "CAR_SELECT" => CimMode::CarSelect,
        "TRACK_SELECT" => CimMode::TrackSelect,
        "SHIFTU" => CimMode::ShiftU {
            submode: variant_by_name(&[CimSubModeShiftU::Plain, CimSubModeShiftU::Buttons, CimSubModeShiftU::Edit], &subname.ok_or("SubMode")?)?,
            seltype: b.u8("SelType")?,
        },
        o => return Err(format!("no typed counterpart for CIM mode {o}")),
    })
}

/// MSO: `TextStart` in the FieldMap is a character index into Msg; the typed field is the byte
/// offset of that character in the (UTF-8) message.
pub fn mso_textstart_bytes(msg: &str, chars: usize) -> usize {
    msg.char_indices().nth(chars).map(|x| x.0).unwrap_or(msg.len())
}

pub fn from_fields(spec: &Spec, lay: &Layout, fm: &FieldMap) -> Result<Packet, String> {
    let b = B { spec, lay, fm };
    let reqi = b.reqi()?;
    Ok(match lay.name.as_str() {
        "ISI" => Packet::Isi(Isi {
            reqi,
            udpport: b.u16("UDPPort")?,
            flags: b.f("Flags")?,
            version: b.u8("InSimVer")?,
            prefix: b.ch("Prefix")?,
            interval: b.d("Interval")?,
            admin: b.t("Admin")?,
            iname: b.t("IName")?,
        }),
        "VER" => Packet::Ver(Ver {
            reqi,
            version: GameVersion::from_str(&b.t("Version")?).map_err(|e| e.to_string())?,
            product: b.t("Product")?,
            insimver: b.u8("InSimVer")?,
        }),
        "TINY" => Packet::Tiny(Tiny { reqi, subt: b.e("SubT")? }),
        "SMALL" => Packet::Small(Small { reqi, subt: small_type(&b)? }),
        "STA" => Packet::Sta(Sta {
            reqi,
            replayspeed: b.f32("ReplaySpeed")?,
            flags: b.f("Flags")?,
            ingamecam: b.e("InGameCam")?,
            viewplid: b.plid("ViewPLID")?,
            nump: b.u8("NumP")?,
            numconns: b.u8("NumConns")?,
            numfinished: b.u8("NumFinished")?,
            raceinprog: b.e("RaceInProg")?,
            qualmins: b.u8("QualMins")?,
            racelaps: b.rl("RaceLaps")?,
            serverstatus: b.u8("ServerStatus")?,
            track: b.trk("Track")?,
            weather: b.u8("Weather")?,
            wind: b.e("Wind")?,
        }),
        "SCH" => Packet::Sch(Sch { reqi, charb: b.ch("CharB")?, flags: b.f("Flags")? }),
        "SFP" => Packet::Sfp(Sfp { reqi, flag: b.f("Flag")?, onoff: b.b("OffOn")? }),
        "SCC" => Packet::Scc(Scc { reqi, viewplid: b.plid("ViewPLID")?, ingamecam: b.e("InGameCam")? }),
        "CPP" => Packet::Cpp(Cpp {
            reqi,
            pos: Point { x: b.i32("PosX")?, y: b.i32("PosY")?, z: b.i32("PosZ")? },
            h: b.u16("H")?,
            p: b.u16("P")?,
            r: b.u16("R")?,
            viewplid: b.plid("ViewPLID")?,
            ingamecam: b.e("InGameCam")?,
            fov: b.f32("FOV")?,
            time: b.d("Time")?,
            flags: b.f("Flags")?,
        }),
        "ISM" => Packet::Ism(Ism { reqi, host: b.b("Host")?, hname: b.t("HName")? }),
        "MSO" => {
            let msg = b.t("Msg")?;
            let ts = mso_textstart_bytes(&msg, b.u("TextStart")? as usize);
            Packet::Mso(Mso { reqi, ucid: b.ucid("UCID")?, plid: b.plid("PLID")?, usertype: b.e("UserType")?, textstart: ts as u8, msg })
        },
        "III" => Packet::Iii(Iii { reqi, ucid: b.ucid("UCID")?, plid: b.plid("PLID")?, msg: b.t("Msg")? }),
        "MST" => Packet::Mst(Mst { reqi, msg: b.t("Msg")? }),
        "MTC" => Packet::Mtc(Mtc { reqi, sound: b.e("Sound")?, ucid: b.ucid("UCID")?, plid: b.plid("PLID")?, text: b.t("Text")? }),
        "MOD" => Packet::Mod(Mod { reqi, bit16: b.i32("Bits16")?, rr: b.i32("RR")?, width: b.i32("Width")?, height: b.i32("Height")? }),
        "VTN" => Packet::Vtn(Vtn { reqi, ucid: b.ucid("UCID")?, action: b.e("Action")? }),
        "RST" => Packet::Rst(Rst {
            reqi,
            racelaps: b.rl("RaceLaps")?,
            qualmins: b.u8("QualMins")?,
            nump: b.u8("NumP")?,
            timing: b.u8("Timing")?,
            track: b.trk("Track")?,
            weather: b.u8("Weather")?,
            wind: b.e("Wind")?,
            flags: b.f("Flags")?,
            numnodes: b.u16("NumNodes")?,
            finish: b.u16("Finish")?,
            split1: b.u16("Split1")?,
            split2: b.u16("Split2")?,
            split3: b.u16("Split3")?,
        }),
        "NCN" => Packet::Ncn(Ncn {
            reqi,
            ucid: b.ucid("UCID")?,
            uname: b.t("UName")?,
            pname: b.t("PName")?,
            admin: b.b("Admin")?,
            total: b.u8("Total")?,
            flags: b.f("Flags")?,
        }),
        "CNL" => Packet::Cnl(Cnl { reqi, ucid: b.ucid("UCID")?, reason: b.e("Reason")?, total: b.u8("Total")? }),
        "CPR" => Packet::Cpr(Cpr { reqi, ucid: b.ucid("UCID")?, pname: b.t("PName")?, plate: b.t("Plate")? }),
        "NPL" => Packet::Npl(Npl {
            reqi,
            plid: b.plid("PLID")?,
            ucid: b.ucid("UCID")?,
            ptype: b.f("PType")?,
            flags: b.f("Flags")?,
            pname: b.t("PName")?,
            plate: b.t("Plate")?,
            cname: b.veh("CName")?,
            sname: b.t("SName")?,
            tyres: b.tyres()?,
            h_mass: b.u8("H_Mass")?,
            h_tres: b.u8("H_TRes")?,
            model: b.u8("Model")?,
            pass: b.f("Pass")?,
            rwadj: b.u8("RWAdj")?,
            fwadj: b.u8("FWAdj")?,
            setf: b.f("SetF")?,
            nump: b.u8("NumP")?,
            config: b.u8("Config")?,
            fuel: b.fuel("Fuel")?,
        }),
        "PLP" => Packet::Plp(Plp { reqi, plid: b.plid("PLID")? }),
        "PLL" => Packet::Pll(Pll { reqi, plid: b.plid("PLID")? }),
        "CRS" => Packet::Crs(Crs { reqi, plid: b.plid("PLID")? }),
        "AXO" => Packet::Axo(Axo { reqi, plid: b.plid("PLID")? }),
        "LAP" => Packet::Lap(Lap {
            reqi,
            plid: b.plid("PLID")?,
            ltime: b.d("LTime")?,
            etime: b.d("ETime")?,
            lapsdone: b.u16("LapsDone")?,
            flags: b.f("Flags")?,
            penalty: b.e("Penalty")?,
            numstops: b.u8("NumStops")?,
            fuel200: b.fuel200("Fuel200")?,
        }),
        "SPX" => Packet::Spx(Spx {
            reqi,
            plid: b.plid("PLID")?,
            stime: b.d("STime")?,
            etime: b.d("ETime")?,
            split: b.u8("Split")?,
            penalty: b.e("Penalty")?,
            numstops: b.u8("NumStops")?,
            fuel200: b.fuel200("Fuel200")?,
        }),
        "PIT" => Packet::Pit(Pit {
            reqi,
            plid: b.plid("PLID")?,
            lapsdone: b.u16("LapsDone")?,
            flags: b.f("Flags")?,
            fueladd: b.fuel("FuelAdd")?,
            penalty: b.e("Penalty")?,
            numstops: b.u8("NumStops")?,
            tyres: b.tyres()?,
            work: b.f("Work")?,
        }),
        "PSF" => Packet::Psf(Psf { reqi, plid: b.plid("PLID")?, stime: b.d("STime")? }),
        "PLA" => Packet::Pla(Pla { reqi, plid: b.plid("PLID")?, fact: b.e("Fact")? }),
        "CCH" => Packet::Cch(Cch { reqi, plid: b.plid("PLID")?, camera: b.e("Camera")? }),
        "PEN" => Packet::Pen(Pen { reqi, plid: b.plid("PLID")?, oldpen: b.e("OldPen")?, newpen: b.e("NewPen")?, reason: b.e("Reason")? }),
        "TOC" => Packet::Toc(Toc { reqi, plid: b.plid("PLID")?, olducid: b.ucid("OldUCID")?, newucid: b.ucid("NewUCID")? }),
        "FLG" => Packet::Flg(Flg { reqi, plid: b.plid("PLID")?, offon: b.b("OffOn")?, flag: b.e("Flag")?, carbehind: b.plid("CarBehind")? }),
        "PFL" => Packet::Pfl(Pfl { reqi, plid: b.plid("PLID")?, flags: b.f("Flags")? }),
        "FIN" => Packet::Fin(Fin {
            reqi,
            plid: b.plid("PLID")?,
            ttime: b.d("TTime")?,
            btime: b.d("BTime")?,
            numstops: b.u8("NumStops")?,
            confirm: b.f("Confirm")?,
            lapsdone: b.u16("LapsDone")?,
            flags: b.f("Flags")?,
        }),
        "RES" => Packet::Res(Res {
            reqi,
            plid: b.plid("PLID")?,
            uname: b.t("UName")?,
            pname: b.t("PName")?,
            plate: b.t("Plate")?,
            cname: b.veh("CName")?,
            ttime: b.d("TTime")?,
            btime: b.d("BTime")?,
            numstops: b.u8("NumStops")?,
            confirm: b.f("Confirm")?,
            lapsdone: b.u16("LapsDone")?,
            flags: b.f("Flags")?,
            resultnum: b.u8("ResultNum")?,
            numres: b.u8("NumRes")?,
            pseconds: b.u16("PSeconds")?,
        }),
        "REO" => {
            let Val::B(bytes) = b.get("PLID")? else { return Err("REO PLID".into()) };
            let mut plid = [PlayerId(0); 40];
            for (i, x) in bytes.iter().enumerate().take(40) {
                plid[i] = PlayerId(*x);
            }
            Packet::Reo(Reo { reqi, nump: b.u8("NumP")?, plid })
        },
        "NLP" => {
            let mut info = vec![];
            for it in b.list("Info")? {
                let s = b.sub("NodeLap", it);
                info.push(NodeLapInfo { node: s.u16("Node")?, lap: s.u16("Lap")?, plid: s.plid("PLID")?, position: s.u8("Position")? });
            }
            Packet::Nlp(Nlp { reqi, info })
        },
        "MCI" => {
            let mut info = vec![];
            for it in b.list("Info")? {
                let s = b.sub("CompCar", it);
                info.push(CompCar {
                    node: s.u16("Node")?,
                    lap: s.u16("Lap")?,
                    plid: s.plid("PLID")?,
                    position: s.u8("Position")?,
                    info: s.f("Info")?,
                    xyz: Point { x: s.i32("X")?, y: s.i32("Y")?, z: s.i32("Z")? },
                    speed: s.u16("Speed")?,
                    direction: s.u16("Direction")?,
                    heading: s.u16("Heading")?,
                    angvel: s.i16("AngVel")?,
                });
            }
            Packet::Mci(Mci { reqi, info })
        },
        "MSX" => Packet::Msx(Msx { reqi, msg: b.t("Msg")? }),
        "MSL" => Packet::Msl(Msl { reqi, sound: b.e("Sound")?, msg: b.t("Msg")? }),
        "BFN" => Packet::Bfn(Bfn {
            reqi,
            subt: b.e("SubT")?,
            ucid: b.ucid("UCID")?,
            clickid: ClickId(b.u8("ClickID")?),
            clickmax: b.u8("ClickMax")?,
            inst: b.f("Inst")?,
        }),
        "AXI" => Packet::Axi(Axi { reqi, axstart: b.u8("AXStart")?, numcp: b.u8("NumCP")?, numo: b.u16("NumO")?, lname: b.t("LName")? }),
        "BTN" => Packet::Btn(Btn {
            reqi,
            ucid: b.ucid("UCID")?,
            clickid: ClickId(b.u8("ClickID")?),
            inst: b.f("Inst")?,
            bstyle: b.f("BStyle")?,
            typein: b.u8("TypeIn")?,
            l: b.u8("L")?,
            t: b.u8("T")?,
            w: b.u8("W")?,
            h: b.u8("H")?,
            text: b.t("Text")?,
        }),
        "BTC" => Packet::Btc(Btc { reqi, ucid: b.ucid("UCID")?, clickid: ClickId(b.u8("ClickID")?), inst: b.f("Inst")?, cflags: b.f("CFlags")? }),
        "BTT" => Packet::Btt(Btt {
            reqi,
            ucid: b.ucid("UCID")?,
            clickid: ClickId(b.u8("ClickID")?),
            inst: b.f("Inst")?,
            typein: b.u8("TypeIn")?,
            text: b.t("Text")?,
        }),
        "RIP" => Packet::Rip(Rip {
            reqi,
            error: b.e("Error")?,
            mpr: b.b("MPR")?,
            paused: b.b("Paused")?,
            options: b.f("Options")?,
            ctime: b.d("CTime")?,
            ttime: b.d("TTime")?,
            rname: b.t("RName")?,
        }),
        "SSH" => Packet::Ssh(Ssh { reqi, error: b.e("Error")?, name: b.t("Name")? }),
        "CON" => Packet::Con(Con {
            reqi,
            spclose: b.u16("SpClose")?,
            time: b.d("Time")?,
            a: con_info(&b.one("A", "CarContact")?)?,
            b: con_info(&b.one("B", "CarContact")?)?,
        }),
        "OBH" => Packet::Obh(Obh {
            reqi,
            plid: b.plid("PLID")?,
            spclose: b.u16("SpClose")?,
            time: b.d("Time")?,
            c: car_contact(&b.one("C", "CarContOBJ")?)?,
            x: b.i16("X")?,
            y: b.i16("Y")?,
            zbyte: b.u8("Zbyte")?,
            index: b.u8("Index")?,
            flags: b.f("OBHFlags")?,
        }),
        "HLV" => Packet::Hlv(Hlv { reqi, plid: b.plid("PLID")?, hlvc: b.e("HLVC")?, time: b.d("Time")?, c: car_contact(&b.one("C", "CarContOBJ")?)? }),
        "PLC" => {
            let Val::S(names) = b.get("Cars")? else { return Err("PLC Cars".into()) };
            Packet::Plc(Plc { reqi, ucid: b.ucid("UCID")?, cars: cars_set(names)? })
        },
        "AXM" => {
            let mut info = vec![];
            for it in b.list("Info")? {
                info.push(object_info(&b.sub("ObjectInfo", it))?);
            }
            Packet::Axm(Axm { reqi, ucid: b.ucid("UCID")?, pmoaction: b.e("PMOAction")?, pmoflags: b.f("PMOFlags")?, info })
        },
        "ACR" => Packet::Acr(Acr { reqi, ucid: b.ucid("UCID")?, admin: b.b("Admin")?, result: b.e("Result")?, text: b.t("Text")? }),
        "HCP" => {
            let l = b.list("Info")?;
            let mut info: [HcpCarHandicap; 32] = Default::default();
            for (i, it) in l.iter().enumerate().take(32) {
                let s = b.sub("CarHCP", it);
                info[i] = HcpCarHandicap { h_mass: s.u8("H_Mass")?, h_tres: s.u8("H_TRes")? };
            }
            Packet::Hcp(Hcp { reqi, info })
        },
        "NCI" => {
            let Val::B(ip) = b.get("IPAddress")? else { return Err("NCI IPAddress".into()) };
            Packet::Nci(Nci { reqi, ucid: b.ucid("UCID")?, language: b.e("Language")?, license: b.e("License")?, userid: b.u32("UserID")?, ipaddress: ip_from_wire(ip) })
        },
        "JRR" => Packet::Jrr(Jrr {
            reqi,
            plid: b.plid("PLID")?,
            ucid: b.ucid("UCID")?,
            jrraction: b.e("JRRAction")?,
            startpos: object_info(&b.one("StartPos", "ObjectInfo")?)?,
        }),
        "UCO" => Packet::Uco(Uco {
            reqi,
            plid: b.plid("PLID")?,
            ucoaction: b.e("UCOAction")?,
            time: b.d("Time")?,
            c: car_contact(&b.one("C", "CarContOBJ")?)?,
            info: object_info(&b.one("Info", "ObjectInfo")?)?,
        }),
        "OCO" => Packet::Oco(Oco { reqi, ocoaction: b.e("OCOAction")?, index: b.e("Index")?, identifier: b.u8("Identifier")?, data: b.f("Data")? }),
        "TTC" => Packet::Ttc(Ttc { reqi, subt: b.e("SubT")?, ucid: b.ucid("UCID")?, b1: b.u8("B1")?, b2: b.u8("B2")?, b3: b.u8("B3")? }),
        "SLC" => Packet::Slc(Slc { reqi, ucid: b.ucid("UCID")?, cname: b.veh("CName")? }),
        "CSC" => Packet::Csc(Csc { reqi, plid: b.plid("PLID")?, cscaction: b.e("CSCAction")?, time: b.d("Time")?, c: car_contact(&b.one("C", "CarContOBJ")?)? }),
        "CIM" => Packet::Cim(Cim { reqi, ucid: b.ucid("UCID")?, mode: cim_mode(&b)? }),
        "MAL" => {
            let mut m = Mal::default();
            m.reqi = reqi;
            m.ucid = b.ucid("UCID")?;
            let Val::P(items) = b.get("SkinID")? else { return Err("MAL SkinID".into()) };
            // different call histories for the same list (see cars_set)
            match items.len() % 3 {
                1 => {
                    let _ = m.insert(Vehicle::Mod(0x00AB_CDEF)).map_err(|e| e.to_string())?;
                    let _ = m.insert(Vehicle::Mod(0x0012_3456)).map_err(|e| e.to_string())?;
                    m.clear();
                },
                2 => {
                    let _ = m.insert(Vehicle::Mod(0x00FE_DCBA)).map_err(|e| e.to_string())?;
                },
                _ => {},
            }
            for it in items {
                let Val::U(id) = it else { return Err("MAL item".into()) };
                let _ = m.insert(Vehicle::Mod(*id as u32)).map_err(|e| e.to_string())?;
            }
            if items.len() % 3 == 2 && !items.iter().any(|it| matches!(it, Val::U(0x00FE_DCBA))) {
                let _ = m.remove(&Vehicle::Mod(0x00FE_DCBA));
            }
            Packet::Mal(m)
        },
        "PLH" => {
            let mut hcaps = vec![];
            for it in b.list("HCaps")? {
                let s = b.sub("PlayerHCap", it);
                let mut h = PlayerHandicap::default();
                h.plid = s.plid("PLID")?;
                h.flags = s.f("Flags")?;
                h.h_mass = s.u8("H_Mass")?;
                h.h_tres = s.u8("H_TRes")?;
                hcaps.push(h);
            }
            Packet::Plh(Plh { reqi, hcaps })
        },
        "IPB" => {
            let mut m = Ipb::default();
            m.reqi = reqi;
            let Val::P(items) = b.get("BanIPs")? else { return Err("IPB BanIPs".into()) };
            let extra = std::net::Ipv4Addr::new(203, 0, 113, 77);
            match items.len() % 3 {
                1 => {
                    let _ = m.insert(extra);
                    let _ = m.insert(std::net::Ipv4Addr::new(198, 51, 100, 3));
                    m.clear();
                },
                2 => {
                    let _ = m.insert(extra);
                },
                _ => {},
            }
            for it in items {
                let Val::B(ip) = it else { return Err("IPB item".into()) };
                let _ = m.insert(ip_from_wire(ip));
            }
            if items.len() % 3 == 2 && !items.iter().any(|it| matches!(it, Val::B(ip) if ip_from_wire(ip) == extra)) {
                let _ = m.remove(&extra);
            }
            Packet::Ipb(m)
        },
        "ARQ" => Packet::RelayArq(Arq { reqi }),
        "ARP" => Packet::RelayArp(Arp { reqi, admin: b.b("Admin")? }),
        "HLR" => Packet::RelayHlr(Hlr { reqi }),
        "HOS" => {
            let mut hinfo = vec![];
            for it in b.list("Info")? {
                let s = b.sub("HInfo", it);
                hinfo.push(HostInfo { hname: s.t("HName")?, track: s.trk("Track")?, flags: s.f("Flags")?, numconns: s.u8("NumConns")? });
            }
            Packet::RelayHos(Hos { reqi, hinfo })
        },
        "SEL" => Packet::RelaySel(Sel { reqi, hname: b.t("HName")?, admin: b.t("Admin")?, spec: b.t("Spec")? }),
        "ERR" => Packet::RelayErr(insim::relay::Error { reqi, err: b.e("ErrNo")? }),
        o => return Err(format!("no binding for packet kind {o}")),
    })
}

/// Name of the kind a typed packet belongs to, through its Debug rendering ("Isi(Isi {..})" -> "ISI"),
/// mapped onto the spec's names.
pub fn kind_of(p: &Packet) -> String {
    let d = format!("{:?}", p);
    let v: String = d.chars().take_while(|c| c.is_ascii_alphanumeric()).collect();
    let v = v.to_ascii_uppercase();
    v.strip_prefix("RELAY").map(|s| s.to_string()).unwrap_or(v)
}
