//! Extract the variant list of `pub enum Track` from the repository's current source at build time
//! (property C14: "the variant list is taken from the enum declaration at check build time").

use std::{env, fs, path::PathBuf};

fn main() {
    // IVH_REPO lets the self-test build the harness against a scratch copy of the repository
    println!("cargo:rerun-if-env-changed=IVH_REPO");
    let repo = env::var("IVH_REPO").unwrap_or_else(|_| "/repo".to_string());
    let src = format!("{repo}/insim_core/src/track.rs");
    let src = src.as_str();
    println!("cargo:rerun-if-changed={}", src);
    println!("cargo:rerun-if-changed=build.rs");
    let text = fs::read_to_string(src).expect("cannot read track.rs");
    let start = text.find("pub enum Track").expect("no `pub enum Track`");
    let body_start = start + text[start..].find('{').unwrap() + 1;
    let body_end = body_start + text[body_start..].find('}').unwrap();
    let body = &text[body_start..body_end];
    let mut variants = vec![];
    for line in body.lines() {
        let l = line.trim();
        if l.is_empty() || l.starts_with("//") || l.starts_with('#') {
            continue;
        }
        let name: String = l.chars().take_while(|c| c.is_ascii_alphanumeric() || *c == '_').collect();
        if !name.is_empty() {
            variants.push(name);
        }
    }
    let mut out = String::new();
    out.push_str("pub fn all_tracks() -> Vec<(&'static str, insim_core::track::Track)> {\n    vec![\n");
    for v in &variants {
        out.push_str(&format!("        (\"{v}\", insim_core::track::Track::{v}),\n"));
    }
    out.push_str("    ]\n}\n");
    let dest = PathBuf::from(env::var("OUT_DIR").unwrap()).join("tracks.rs");
    fs::write(dest, out).unwrap();
}
