#!/bin/bash
# usage: confirm_seed.sh <seed-id> <worktree> <property>
# Confirms (in the given scratch worktree, which has the change applied and uncommitted):
#   existing tests pass with the change; demo fails with the change; demo passes without it.
# On success stores patch.diff, demo/ and meta.json under /verif/seeded/<seed-id>/.
set -u
id=$1; wt=$2; prop=$3
cd "$wt" || exit 2
export CARGO_NET_OFFLINE=true
demo_cmd() { if [ -d demo/tests ] || [ -f demo/src/lib.rs ]; then (cd demo && cargo test --offline 2>&1); else (cd demo && cargo run --offline 2>&1); fi; }
git diff -- insim insim_core insim_pth insim_smx > /tmp/confirm_$id.patch
[ -s /tmp/confirm_$id.patch ] || { echo "no change applied in $wt"; exit 2; }
t=$(cargo test --workspace --no-fail-fast --offline 2>&1); passed=$(echo "$t" | grep -o "test result: ok. [0-9]* passed" | awk '{s+=$4} END{print s+0}'); failed=$(echo "$t" | grep -c "test result: FAILED")
echo "[with change] existing tests: $passed passed, $failed failed suites"
demo_cmd > /tmp/confirm_${id}_with.log; rc_with=$?
echo "[with change] demo exit=$rc_with"
git checkout -q -- insim insim_core insim_pth insim_smx   # (no git stash: the stash is shared between worktrees)
demo_cmd > /tmp/confirm_${id}_without.log; rc_without=$?
echo "[without change] demo exit=$rc_without"
git apply --whitespace=nowarn /tmp/confirm_$id.patch
ok=0
if [ "$passed" -ge 58 ] && [ "$failed" -eq 0 ] && [ $rc_with -ne 0 ] && [ $rc_without -eq 0 ]; then ok=1; fi
if [ $ok -eq 1 ]; then
  d=/verif/seeded/$id; mkdir -p $d
  cp /tmp/confirm_$id.patch $d/patch.diff
  rsync -a --exclude target --exclude Cargo.lock demo/ $d/demo/
  [ -f NOTES.md ] && cp NOTES.md $d/NOTES.md
  python3 - "$id" "$prop" "$passed" "$rc_with" "$rc_without" "$d" <<'PY'
import json, os, re, sys
sid, prop, passed, rcw, rcwo, d = sys.argv[1:7]
notes = open(os.path.join(d, "NOTES.md")).read() if os.path.exists(os.path.join(d, "NOTES.md")) else ""
m = re.search(r"(?is)what it needs to manifest\**\s*(.*?)(\n#+ |\n\*\*[A-Z]|\Z)", notes)
needs = (m.group(1).strip() if m else notes[:600])[:900]
meta = {"id": sid, "property": prop, "origin": "independent sub-agent given only the property text and a scratch worktree",
        "needs_to_manifest": needs,
        "confirmed": {"existing_tests_with_change": f"{passed} passed, 0 failed", "demo_with_change_exit": int(rcw), "demo_without_change_exit": int(rcwo),
                      "how": "tools/confirm_seed.sh in the scratch worktree: cargo test --workspace --offline; demo (cargo run/test --offline) with the change; git checkout of the library sources; demo again; git apply"}}
json.dump(meta, open(os.path.join(d, "meta.json"), "w"), indent=1, ensure_ascii=False)
PY
  echo "CONFIRMED $id -> $d"
else
  echo "NOT CONFIRMED $id (passed=$passed failed=$failed with=$rc_with without=$rc_without)"
fi
rm -f /tmp/confirm_$id.patch
