pub mod c01;
pub mod c02;
pub mod c03;
pub mod c04;
pub mod c05;
pub mod c06;
pub mod c07;
pub mod c08;
pub mod c09;
pub mod c10;
pub mod c17;
pub mod c18;
pub mod c19;
pub mod c19_real;
pub mod c20;
pub mod c11;
pub mod c12;
pub mod c13;
pub mod c14;
pub mod c15;
pub mod c16;

use crate::ctx::Ctx;

pub type CheckFn = fn(&mut Ctx) -> (&'static str, String, bool);

pub fn lookup(id: &str) -> Option<CheckFn> {
    Some(match id {
        "C01" => c01::run,
        "C02" => c02::run,
        "C03" => c03::run,
        "C04" => c04::run,
        "C05" => c05::run,
        "C06" => c06::run,
        "C07" => c07::run,
        "C08" => c08::run,
        "C09" => c09::run,
        "C10" => c10::run,
        "C17" => c17::run,
        "C18" => c18::run,
        "C19" => c19::run,
        "C20" => c20::run,
        "C11" => c11::run,
        "C12" => c12::run,
        "C13" => c13::run,
        "C14" => c14::run,
        "C15" => c15::run,
        "C16" => c16::run,
        _ => return None,
    })
}

/// Re-execute one journalled case alone (hang confirmation).
pub fn hang_case(id: &str, bytes: &[u8]) {
    match id {
        "C16" => c16::hang_case(bytes),
        "C04" => c04::hang_case(bytes),
        "C17" => c17::hang_case(bytes),
        _ => {},
    }
}
