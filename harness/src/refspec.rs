//! Independent, table-driven reference codec: parser for `ref/insim_v9.spec`, the interpreter that
//! turns (kind, FieldMap, mode) into the expected frame image, and spec-driven value generators.

use std::collections::BTreeMap;

use crate::rng::Rng;

#[derive(Clone, Debug, PartialEq)]
pub enum Val {
    U(u64),
    I(i64),
    F(u32),
    T(String),
    B(Vec<u8>),
    /// enumerant by name
    E(String),
    /// flag set by names
    S(Vec<String>),
    /// named composite value (LCS/LCL `values`)
    V(String),
    L(Vec<FieldMap>),
    /// list of primitives (u32 / ip)
    P(Vec<Val>),
}

pub type FieldMap = BTreeMap<String, Val>;

#[derive(Clone, Debug, PartialEq)]
pub enum Kind {
    U8,
    U16,
    U32,
    I8,
    I16,
    I32,
    F32,
    Pad(usize),
    Bool,
    Char8,
    Enum8(String),
    Flags(usize, String),
    Dur { bytes: usize, unit: u64, pinned: bool },
    Text { n: usize, raw: bool },
    ZText(usize),
    VText(usize),
    ZVText(usize),
    Vehicle,
    Track,
    RaceLaps,
    GameVer,
    Ip,
    U12,
    Nib(String, String),
    Bytes(usize),
    Array(usize, String),
    Count(String),
    List { elem: String, max: usize, pad2odd: bool },
    Small,
    Cim,
}

#[derive(Clone, Debug)]
pub struct Field {
    pub off: usize,
    pub name: String,
    pub kind: Kind,
    pub max: Option<u64>,
    pub sign_unpinned: bool,
}

#[derive(Clone, Debug)]
pub struct Layout {
    pub name: String,
    pub ty: u8,
    /// fixed size, or base size of a variable packet
    pub base: usize,
    pub variable: bool,
    pub fields: Vec<Field>,
}

#[derive(Clone, Debug)]
pub enum SmallArm {
    Zero,
    Dur { unit: u64, pinned: bool },
    Enum(String),
    Bool,
    Flags(String),
}

#[derive(Clone, Debug)]
pub struct CimArm {
    pub name: String,
    pub value: u8,
    pub sub: Vec<(String, u8)>,
    pub seltype: bool,
}

#[derive(Debug, Default)]
pub struct Spec {
    pub enums: BTreeMap<String, Vec<(String, u64)>>,
    pub flags: BTreeMap<String, Vec<(String, u64)>>,
    pub values: BTreeMap<String, Vec<(String, u64)>>,
    pub structs: BTreeMap<String, Layout>,
    pub packets: Vec<Layout>,
    pub small: Vec<(String, u8, SmallArm)>,
    pub cim: Vec<CimArm>,
}

fn parse_num(s: &str) -> u64 {
    if let Some(h) = s.strip_prefix("0x") {
        u64::from_str_radix(h, 16).unwrap()
    } else {
        s.parse().unwrap_or_else(|_| panic!("bad number {s}"))
    }
}

fn parse_pairs(ws: &[&str]) -> Vec<(String, u64)> {
    ws.iter()
        .map(|w| {
            let (n, v) = w.split_once('=').unwrap_or_else(|| panic!("bad pair {w}"));
            (n.to_string(), parse_num(v))
        })
        .collect()
}

fn parse_field(ws: &[&str]) -> Field {
    let off: usize = ws[0].parse().unwrap();
    let name = ws[1].to_string();
    let mut max = None;
    let mut sign_unpinned = false;
    let mut args: Vec<&str> = vec![];
    for w in &ws[3..] {
        if let Some(m) = w.strip_prefix("max=") {
            max = Some(parse_num(m));
        } else if *w == "s=unpinned" {
            sign_unpinned = true;
        } else {
            args.push(w);
        }
    }
    let n = |i: usize| -> usize { args[i].parse().unwrap() };
    let kind = match ws[2] {
        "u8" => Kind::U8,
        "u16" => Kind::U16,
        "u32" => Kind::U32,
        "i8" => Kind::I8,
        "i16" => Kind::I16,
        "i32" => Kind::I32,
        "f32" => Kind::F32,
        "pad" => Kind::Pad(n(0)),
        "bool" => Kind::Bool,
        "char8" => Kind::Char8,
        "enum8" => Kind::Enum8(args[0].to_string()),
        "flags8" => Kind::Flags(1, args[0].to_string()),
        "flags16" => Kind::Flags(2, args[0].to_string()),
        "flags32" => Kind::Flags(4, args[0].to_string()),
        "dur16" => Kind::Dur { bytes: 2, unit: n(0) as u64, pinned: args.get(1) != Some(&"unpinned") },
        "dur32" => Kind::Dur { bytes: 4, unit: n(0) as u64, pinned: args.get(1) != Some(&"unpinned") },
        "text" => Kind::Text { n: n(0), raw: args.get(1) == Some(&"raw") },
        "ztext" => Kind::ZText(n(0)),
        "vtext" => Kind::VText(n(0)),
        "zvtext" => Kind::ZVText(n(0)),
        "vehicle" => Kind::Vehicle,
        "track" => Kind::Track,
        "racelaps" => Kind::RaceLaps,
        "gamever" => Kind::GameVer,
        "ip" => Kind::Ip,
        "u12" => Kind::U12,
        "nib" => Kind::Nib(args[0].to_string(), args[1].to_string()),
        "bytes" => Kind::Bytes(n(0)),
        "array" => Kind::Array(n(0), args[1].to_string()),
        "count" => Kind::Count(args[0].to_string()),
        "list" => Kind::List { elem: args[0].to_string(), max: n(1), pad2odd: args.get(2) == Some(&"pad2odd") },
        "small" => Kind::Small,
        "cim" => Kind::Cim,
        k => panic!("unknown field kind {k}"),
    };
    Field { off, name, kind, max, sign_unpinned }
}

impl Spec {
    pub fn load() -> Result<Spec, String> {
        let p = crate::ctx::verif_root().join("ref").join("insim_v9.spec");
        let text = std::fs::read_to_string(&p).map_err(|e| format!("{}: {e}", p.display()))?;
        Ok(Self::parse(&text))
    }

    pub fn parse(text: &str) -> Spec {
        let mut s = Spec::default();
        enum Cur {
            None,
            Struct(String),
            Packet(usize),
            Small,
            Cim,
        }
        let mut cur = Cur::None;
        for line in text.lines() {
            let l = line.split('#').next().unwrap();
            if l.trim().is_empty() {
                continue;
            }
            let indented = l.starts_with(' ');
            let ws: Vec<&str> = l.split_whitespace().collect();
            if !indented {
                match ws[0] {
                    "enum" => {
                        let _ = s.enums.insert(ws[1].to_string(), parse_pairs(&ws[2..]));
                        cur = Cur::None;
                    },
                    "flags" => {
                        let _ = s.flags.insert(ws[1].to_string(), parse_pairs(&ws[2..]));
                        cur = Cur::None;
                    },
                    "values" => {
                        let _ = s.values.insert(ws[1].to_string(), parse_pairs(&ws[2..]));
                        cur = Cur::None;
                    },
                    "struct" => {
                        let _ = s.structs.insert(
                            ws[1].to_string(),
                            Layout { name: ws[1].to_string(), ty: 0, base: ws[2].parse().unwrap(), variable: false, fields: vec![] },
                        );
                        cur = Cur::Struct(ws[1].to_string());
                    },
                    "packet" => {
                        let size = ws[3];
                        let (base, variable) = match size.split_once('+') {
                            Some((b, _)) => (b.parse().unwrap(), true),
                            None => (size.parse().unwrap(), false),
                        };
                        s.packets.push(Layout { name: ws[1].to_string(), ty: ws[2].parse().unwrap(), base, variable, fields: vec![] });
                        cur = Cur::Packet(s.packets.len() - 1);
                    },
                    "union" => {
                        cur = if ws[1] == "small" { Cur::Small } else { Cur::Cim };
                    },
                    "racelaps" => cur = Cur::None,
                    k => panic!("unknown directive {k}"),
                }
                continue;
            }
            match &cur {
                Cur::Struct(n) => s.structs.get_mut(n).unwrap().fields.push(parse_field(&ws)),
                Cur::Packet(i) => s.packets[*i].fields.push(parse_field(&ws)),
                Cur::Small => {
                    let arm = match ws[2] {
                        "zero" => SmallArm::Zero,
                        "dur" => SmallArm::Dur { unit: parse_num(ws[3]), pinned: ws.get(4) != Some(&"unpinned") },
                        "enum" => SmallArm::Enum(ws[3].to_string()),
                        "bool" => SmallArm::Bool,
                        "flags" => SmallArm::Flags(ws[3].to_string()),
                        k => panic!("small arm {k}"),
                    };
                    s.small.push((ws[0].to_string(), ws[1].parse().unwrap(), arm));
                },
                Cur::Cim => {
                    let mut arm = CimArm { name: ws[0].to_string(), value: ws[1].parse().unwrap(), sub: vec![], seltype: false };
                    if ws.get(2) == Some(&"sub") {
                        for w in &ws[3..] {
                            if *w == "seltype" {
                                arm.seltype = true;
                            } else {
                                let (n, v) = w.split_once('=').unwrap();
                                arm.sub.push((n.to_string(), v.parse().unwrap()));
                            }
                        }
                    }
                    s.cim.push(arm);
                },
                Cur::None => panic!("indented line outside a block: {l}"),
            }
        }
        s
    }

    pub fn packet(&self, name: &str) -> &Layout {
        self.packets.iter().find(|p| p.name == name).unwrap_or_else(|| panic!("no packet {name}"))
    }

    pub fn packet_by_type(&self, ty: u8) -> Option<&Layout> {
        self.packets.iter().find(|p| p.ty == ty)
    }

    pub fn enum_value(&self, e: &str, name: &str) -> Option<u64> {
        self.enums.get(e)?.iter().find(|(n, _)| n == name).map(|x| x.1)
    }

    pub fn flag_bits(&self, f: &str, names: &[String]) -> u64 {
        let tbl = &self.flags[f];
        names.iter().map(|n| tbl.iter().find(|(x, _)| x == n).unwrap_or_else(|| panic!("no flag {n} in {f}")).1).fold(0, |a, b| a | b)
    }

    pub fn named_value(&self, f: &str, name: &str) -> u64 {
        self.values[f].iter().find(|(n, _)| n == name).unwrap().1
    }
}

pub fn limit(compressed: bool) -> usize {
    if compressed {
        1020
    } else {
        255
    }
}

/// Where a field landed in the reference image (for naming the offending field in reports).
#[derive(Clone, Debug)]
pub struct Placed {
    pub path: String,
    pub off: usize,
    pub len: usize,
}

pub struct RefImage {
    /// complete frame including the size byte; `None` if the frame is not representable in the mode
    pub frame: Vec<u8>,
    pub placed: Vec<Placed>,
    pub representable: Result<(), String>,
}

/// text -> bytes for the reference image. ASCII is the identity; for non-ASCII text the caller
/// supplies the text encoder (C02 never needs it, C01/C11 use the real one, judged by C10).
pub type TextEnc<'a> = &'a dyn Fn(&str, bool) -> Vec<u8>;

pub fn ascii_text_enc(s: &str, _raw: bool) -> Vec<u8> {
    assert!(s.is_ascii(), "non-ASCII text needs an explicit text encoder");
    s.as_bytes().to_vec()
}

fn put(buf: &mut Vec<u8>, off: usize, bytes: &[u8]) {
    if buf.len() < off + bytes.len() {
        buf.resize(off + bytes.len(), 0);
    }
    buf[off..off + bytes.len()].copy_from_slice(bytes);
}

fn get_u(fm: &FieldMap, name: &str) -> u64 {
    match fm.get(name) {
        Some(Val::U(v)) => *v,
        Some(Val::I(v)) => *v as u64,
        other => panic!("field {name}: expected integer, got {:?}", other),
    }
}

pub fn vehicle_bytes(v: &Val) -> [u8; 4] {
    match v {
        Val::T(name) => {
            let b = name.as_bytes();
            [b[0], b[1], b[2], 0]
        },
        Val::U(id) => (*id as u32).to_le_bytes(),
        Val::E(_) => [0, 0, 0, 0],
        other => panic!("vehicle value {:?}", other),
    }
}

impl Spec {
    fn write_fields(&self, base: usize, fields: &[Field], fm: &FieldMap, buf: &mut Vec<u8>, placed: &mut Vec<Placed>, path: &str, tenc: TextEnc, problems: &mut Vec<String>) {
        for f in fields {
            let off = base + f.off;
            let p = if path.is_empty() { f.name.clone() } else { format!("{path}.{}", f.name) };
            let start_len = placed.len();
            let mut len = 0usize;
            match &f.kind {
                Kind::Pad(n) => {
                    put(buf, off, &vec![0u8; *n]);
                    len = *n;
                },
                Kind::U8 | Kind::I8 | Kind::Bool | Kind::Char8 | Kind::RaceLaps => {
                    let v = get_u(fm, &f.name);
                    put(buf, off, &[(v & 0xff) as u8]);
                    len = 1;
                },
                Kind::U16 | Kind::I16 => {
                    put(buf, off, &(get_u(fm, &f.name) as u16).to_le_bytes());
                    len = 2;
                },
                Kind::U12 => {
                    put(buf, off, &((get_u(fm, &f.name) & 0x0fff) as u16).to_le_bytes());
                    len = 2;
                },
                Kind::U32 | Kind::I32 => {
                    put(buf, off, &(get_u(fm, &f.name) as u32).to_le_bytes());
                    len = 4;
                },
                Kind::F32 => {
                    let Val::F(bits) = fm[&f.name] else { panic!("f32 {}", f.name) };
                    put(buf, off, &bits.to_le_bytes());
                    len = 4;
                },
                Kind::Enum8(e) => {
                    let Val::E(n) = &fm[&f.name] else { panic!("enum {}", f.name) };
                    let v = self.enum_value(e, n).unwrap_or_else(|| panic!("no enumerant {n} in {e}"));
                    put(buf, off, &[v as u8]);
                    len = 1;
                },
                Kind::Flags(bytes, fl) => {
                    let v = match &fm[&f.name] {
                        Val::S(names) => self.flag_bits(fl, names),
                        Val::V(n) => self.named_value(fl, n),
                        Val::U(v) => *v,
                        o => panic!("flags {}: {:?}", f.name, o),
                    };
                    put(buf, off, &v.to_le_bytes()[..*bytes]);
                    len = *bytes;
                },
                Kind::Dur { bytes, .. } => {
                    let v = get_u(fm, &f.name);
                    put(buf, off, &v.to_le_bytes()[..*bytes]);
                    len = *bytes;
                },
                Kind::Text { n, raw } => {
                    let Val::T(t) = &fm[&f.name] else { panic!("text {}", f.name) };
                    let mut b = tenc(t, *raw);
                    b.truncate(*n);
                    b.resize(*n, 0);
                    put(buf, off, &b);
                    len = *n;
                },
                Kind::ZText(n) => {
                    let Val::T(t) = &fm[&f.name] else { panic!("text {}", f.name) };
                    let mut b = tenc(t, false);
                    b.truncate(*n - 1);
                    b.resize(*n, 0);
                    put(buf, off, &b);
                    len = *n;
                },
                Kind::VText(max) | Kind::ZVText(max) => {
                    let Val::T(t) = &fm[&f.name] else { panic!("text {}", f.name) };
                    let mut b = tenc(t, false);
                    if matches!(f.kind, Kind::ZVText(_)) {
                        b.truncate(*max - 1);
                        b.push(0); // always room for, and always, a terminator
                    }
                    while b.len() % 4 != 0 {
                        b.push(0);
                    }
                    if b.len() > *max {
                        b.truncate(*max);
                    }
                    put(buf, off, &b);
                    len = b.len();
                },
                Kind::Vehicle => {
                    put(buf, off, &vehicle_bytes(&fm[&f.name]));
                    len = 4;
                },
                Kind::Track => {
                    let Val::T(t) = &fm[&f.name] else { panic!("track {}", f.name) };
                    let mut b = t.as_bytes().to_vec();
                    b.resize(6, 0);
                    put(buf, off, &b);
                    len = 6;
                },
                Kind::GameVer => {
                    let Val::T(t) = &fm[&f.name] else { panic!("gamever {}", f.name) };
                    let mut b = t.as_bytes().to_vec();
                    b.resize(8, 0);
                    put(buf, off, &b);
                    len = 8;
                },
                Kind::Ip => {
                    let Val::B(b) = &fm[&f.name] else { panic!("ip {}", f.name) };
                    put(buf, off, b);
                    len = 4;
                },
                Kind::Nib(hi, lo) => {
                    let h = get_u(fm, hi);
                    let l = get_u(fm, lo);
                    if h > 15 || l > 15 {
                        problems.push(format!("{p}: 4-bit sub-field out of range"));
                    }
                    put(buf, off, &[(((h & 15) << 4) | (l & 15)) as u8]);
                    len = 1;
                },
                Kind::Bytes(n) => {
                    let Val::B(b) = &fm[&f.name] else { panic!("bytes {}", f.name) };
                    assert_eq!(b.len(), *n);
                    put(buf, off, b);
                    len = *n;
                },
                Kind::Array(n, st) => {
                    let lay = &self.structs[st];
                    let Val::L(items) = &fm[&f.name] else { panic!("array {}", f.name) };
                    assert_eq!(items.len(), *n, "array {} length", f.name);
                    for (i, it) in items.iter().enumerate() {
                        let ip = if *n == 1 { p.clone() } else { format!("{p}[{i}]") };
                        self.write_fields(off + i * lay.base, &lay.fields, it, buf, placed, &ip, tenc, problems);
                    }
                    len = n * lay.base;
                },
                Kind::Count(list) => {
                    let n = match &fm[list] {
                        Val::L(v) => v.len(),
                        Val::P(v) => v.len(),
                        o => panic!("count of {:?}", o),
                    };
                    if n > 255 {
                        problems.push(format!("{p}: count {n} does not fit a byte"));
                    }
                    put(buf, off, &[(n & 0xff) as u8]);
                    len = 1;
                },
                Kind::List { elem, max, pad2odd } => {
                    match &fm[&f.name] {
                        Val::L(items) => {
                            let lay = &self.structs[elem];
                            for (i, it) in items.iter().enumerate() {
                                self.write_fields(off + i * lay.base, &lay.fields, it, buf, placed, &format!("{p}[{i}]"), tenc, problems);
                            }
                            len = items.len() * lay.base;
                            if items.len() > *max {
                                problems.push(format!("{p}: {} elements exceed the protocol maximum {max}", items.len()));
                            }
                            if *pad2odd && items.len() % 2 == 1 {
                                put(buf, off + len, &[0, 0]);
                                len += 2;
                            }
                        },
                        Val::P(items) => {
                            for (i, it) in items.iter().enumerate() {
                                let b: Vec<u8> = match it {
                                    Val::U(v) => (*v as u32).to_le_bytes().to_vec(),
                                    Val::B(b) => b.clone(),
                                    o => panic!("list prim {:?}", o),
                                };
                                put(buf, off + 4 * i, &b);
                            }
                            len = items.len() * 4;
                            if items.len() > *max {
                                problems.push(format!("{p}: {} elements exceed the protocol maximum {max}", items.len()));
                            }
                        },
                        o => panic!("list {:?}", o),
                    }
                    if buf.len() < off + len {
                        buf.resize(off + len, 0);
                    }
                },
                Kind::Small => {
                    let Val::E(sub) = &fm["SubT"] else { panic!("small SubT") };
                    let (_, num, arm) = self.small.iter().find(|(n, _, _)| n == sub).unwrap_or_else(|| panic!("small arm {sub}"));
                    let uval: u64 = match (arm, fm.get("UVal")) {
                        (SmallArm::Zero, _) => 0,
                        (SmallArm::Dur { .. }, Some(Val::U(v))) => *v,
                        (SmallArm::Bool, Some(Val::U(v))) => *v,
                        (SmallArm::Enum(e), Some(Val::E(n))) => self.enum_value(e, n).unwrap(),
                        (SmallArm::Flags(fl), Some(Val::S(names))) => self.flag_bits(fl, names),
                        (SmallArm::Flags(fl), Some(Val::V(n))) => self.named_value(fl, n),
                        (a, v) => panic!("small {:?} {:?}", a, v),
                    };
                    put(buf, off, &[*num]);
                    put(buf, off + 1, &(uval as u32).to_le_bytes());
                    placed.push(Placed { path: "SubT".into(), off, len: 1 });
                    placed.push(Placed { path: "UVal".into(), off: off + 1, len: 4 });
                    continue;
                },
                Kind::Cim => {
                    let Val::E(mode) = &fm["Mode"] else { panic!("cim Mode") };
                    let arm = self.cim.iter().find(|a| &a.name == mode).unwrap();
                    let sub = match fm.get("SubMode") {
                        Some(Val::E(n)) => arm.sub.iter().find(|(x, _)| x == n).map(|x| x.1).unwrap_or(0),
                        Some(Val::U(v)) => *v as u8,
                        _ => 0,
                    };
                    let sel = match fm.get("SelType") {
                        Some(Val::U(v)) => *v as u8,
                        _ => 0,
                    };
                    put(buf, off, &[arm.value, sub, sel]);
                    placed.push(Placed { path: "Mode".into(), off, len: 1 });
                    placed.push(Placed { path: "SubMode".into(), off: off + 1, len: 1 });
                    placed.push(Placed { path: "SelType".into(), off: off + 2, len: 1 });
                    continue;
                },
            }
            if placed.len() == start_len || !matches!(f.kind, Kind::Array(..) | Kind::List { .. }) {
                placed.push(Placed { path: p, off, len });
            }
        }
    }

    /// Build the expected frame image.
    pub fn encode(&self, lay: &Layout, fm: &FieldMap, compressed: bool, tenc: TextEnc) -> RefImage {
        let mut buf = vec![0u8; 3];
        buf[1] = lay.ty;
        buf[2] = get_u(fm, "ReqI") as u8;
        let mut placed = vec![
            Placed { path: "Size".into(), off: 0, len: 1 },
            Placed { path: "Type".into(), off: 1, len: 1 },
            Placed { path: "ReqI".into(), off: 2, len: 1 },
        ];
        let mut problems = vec![];
        self.write_fields(0, &lay.fields, fm, &mut buf, &mut placed, "", tenc, &mut problems);
        if buf.len() < lay.base {
            buf.resize(lay.base, 0);
        }
        if lay.name == "MSO" {
            // TextStart in the assignment is a character index into Msg; on the wire it is the byte
            // offset of that character within the encoded message
            if let (Some(Val::T(msg)), Some(Val::U(ts))) = (fm.get("Msg"), fm.get("TextStart")) {
                let prefix: String = msg.chars().take(*ts as usize).collect();
                let off = tenc(&prefix, false).len();
                if off > 255 {
                    problems.push("MSO TextStart does not fit a byte".into());
                }
                buf[7] = off as u8;
            }
        }
        let n = buf.len();
        if n % 4 != 0 {
            problems.push(format!("reference size {n} is not a multiple of 4"));
        }
        if n > limit(compressed) {
            problems.push(format!("reference size {n} exceeds the mode's limit {}", limit(compressed)));
        }
        buf[0] = if compressed { (n / 4) as u8 } else { n as u8 };
        RefImage { frame: buf, placed, representable: if problems.is_empty() { Ok(()) } else { Err(problems.join("; ")) } }
    }

    pub fn field_at(&self, img: &RefImage, off: usize) -> String {
        img.placed
            .iter()
            .filter(|p| p.off <= off && off < p.off + p.len.max(1))
            .map(|p| p.path.clone())
            .last()
            .unwrap_or_else(|| format!("@{off}"))
    }
}

// ---------------------------------------------------------------------------------------------
// Generators

pub const BUILTIN_CARS: [&str; 20] = [
    "XFG", "XRG", "FBM", "XRT", "RB4", "FXO", "LX4", "LX6", "MRT", "UF1", "RAC", "FZ5", "FOX", "XFR", "UFR", "FO8", "FXR", "XRR", "FZR", "BF1",
];

#[derive(Clone, Copy, Debug, PartialEq)]
pub enum TextMode {
    /// ASCII, no caret, no NUL; lengths avoid the terminator-dependent cases (for C02)
    AsciiPlacement,
    /// ASCII of any length up to the width
    Ascii,
    /// mixed codepages (needs the real text encoder to size the field)
    Mixed,
}

#[derive(Clone, Copy, Debug)]
pub struct GenOpts {
    pub text: TextMode,
    /// maximum list length: None = protocol maximum
    pub max_list: Option<usize>,
    /// probability (per 16) that an integer takes a boundary value
    pub boundary: u64,
    /// out-of-domain on purpose: element counts 0..300, text up to 2x the field width, 4-bit
    /// sub-fields and documented maxima ignored (C03 only)
    pub hostile: bool,
}

impl Default for GenOpts {
    fn default() -> Self {
        GenOpts { text: TextMode::Ascii, max_list: None, boundary: 6, hostile: false }
    }
}

pub struct Gen<'a> {
    pub spec: &'a Spec,
    pub tracks: &'a [String],
    /// encoded length of a text (real encoder), used to keep generated text within its field
    pub enc_len: &'a dyn Fn(&str) -> usize,
    pub mixed_pool: &'a [char],
}

fn int_val(r: &mut Rng, bits: u32, boundary: u64) -> u64 {
    let max = if bits == 64 { u64::MAX } else { (1u64 << bits) - 1 };
    if r.chance(boundary, 16) {
        let half = 1u64 << (bits - 1);
        let c = [0, 1, 2, max, max - 1, half, half - 1, half + 1, 0x7f & max, 0x80 & max, 0xff & max, 0x100 & max];
        *r.pick(&c)
    } else {
        r.next_u64() & max
    }
}

impl<'a> Gen<'a> {
    pub fn ascii(&self, r: &mut Rng, len: usize) -> String {
        // printable ASCII without caret
        (0..len)
            .map(|_| {
                let c = 0x20 + r.below(0x5f) as u8;
                if c == b'^' {
                    'w'
                } else {
                    c as char
                }
            })
            .collect()
    }

    fn text(&self, r: &mut Rng, width: usize, zterm: bool, variable: bool, o: &GenOpts) -> String {
        let cap = if o.hostile { 2 * width } else if zterm { width - 1 } else { width };
        match o.text {
            TextMode::AsciiPlacement => {
                // below the maximum, and (variable fields) not a multiple of 4, so that the image is
                // independent of the terminator convention
                let hi = cap.saturating_sub(1).max(1);
                let mut len = 1 + r.usize_below(hi);
                if variable && len % 4 == 0 {
                    len -= 1;
                }
                self.ascii(r, len)
            },
            TextMode::Ascii => {
                let len = match r.below(6) {
                    0 => 0,
                    1 => cap,
                    2 => cap.saturating_sub(1),
                    _ => r.usize_below(cap + 1),
                };
                self.ascii(r, len)
            },
            TextMode::Mixed => {
                let target = match r.below(6) {
                    0 => 0,
                    1 | 2 => cap,
                    _ => r.usize_below(cap + 1),
                };
                // besides plain characters, the caret pairs that escaped / coloured text legitimately contains and that
                // are stable under encode/decode: escaped caret, colours (^8 also resets the codepage), escape letters
                const PAIRS: [&str; 8] = ["^^", "^0", "^1", "^7", "^8", "^9", "^v", "^h"];
                let mut s = String::new();
                // `ub` bounds the encoded length of `s` from above: the encoder works left to right, so one more character
                // adds at most a codepage marker and two bytes. The exact (and, under Miri, very expensive) length is only
                // computed when the bound does not settle the question; the strings produced are the same either way.
                let mut ub = 0usize;
                loop {
                    let mut t = s.clone();
                    match r.below(12) {
                        0 => {
                            t.push_str(PAIRS[r.usize_below(PAIRS.len())]);
                            ub += 2;
                        },
                        1..=4 => {
                            t.push((0x20 + r.below(0x3e) as u8) as char);
                            ub += 4;
                        },
                        _ => {
                            t.push(*r.pick(self.mixed_pool));
                            ub += 4;
                        },
                    }
                    if ub > target {
                        ub = (self.enc_len)(&t);
                        if ub > target {
                            break;
                        }
                    }
                    s = t;
                    if s.chars().count() > 300 {
                        break;
                    }
                }
                s
            },
        }
    }

    pub fn vehicle(&self, r: &mut Rng) -> Val {
        match r.below(8) {
            0 => Val::E("UNKNOWN".into()),
            1..=4 => Val::T(r.pick(&BUILTIN_CARS).to_string()),
            _ => loop {
                let id = match r.below(4) {
                    0 => r.range(1, 0xFFFFFF),
                    1 => {
                        // on the border of the built-in shape: a built-in name with one byte made non-alphanumeric,
                        // or with a non-zero 4th byte
                        let mut b = [0u8; 4];
                        b[..3].copy_from_slice(r.pick(&BUILTIN_CARS).as_bytes());
                        let k = r.usize_below(4);
                        b[k] = if k == 3 { 1 + r.below(255) as u8 } else { *r.pick(&[0u8, 0x20, 0x2f, 0x3a, 0x40, 0x5b, 0x60, 0x7b, 0x9c, 0xff]) };
                        u32::from_le_bytes(b) as u64
                    },
                    _ => r.next_u32() as u64,
                };
                let b = (id as u32).to_le_bytes();
                let builtin_shape = b[3] == 0 && b[..3].iter().all(|c| c.is_ascii_alphanumeric());
                if id != 0 && !builtin_shape {
                    break Val::U(id);
                }
            },
        }
    }

    pub fn field(&self, r: &mut Rng, f: &Field, fm: &mut FieldMap, o: &GenOpts) {
        let v = match &f.kind {
            Kind::Pad(_) | Kind::Count(_) => return,
            Kind::U8 | Kind::I8 => {
                let mut v = int_val(r, 8, o.boundary);
                if let (Some(m), false) = (f.max, o.hostile) {
                    v = if r.chance(1, 4) { m } else { v % (m + 1) };
                }
                Val::U(v)
            },
            Kind::U16 | Kind::I16 => Val::U(int_val(r, 16, o.boundary)),
            Kind::U12 => Val::U(int_val(r, 12, o.boundary)),
            Kind::U32 | Kind::I32 => Val::U(int_val(r, 32, o.boundary)),
            Kind::F32 => {
                let bits = match r.below(8) {
                    0 => 0,
                    1 => 1.0f32.to_bits(),
                    2 => (-0.5f32).to_bits(),
                    3 => f32::MAX.to_bits(),
                    4 => f32::MIN_POSITIVE.to_bits(),
                    _ => {
                        // any finite pattern (NaN payloads compare unequal through Debug only by luck; kept out of domain)
                        let mut b = r.next_u32();
                        if f32::from_bits(b).is_nan() {
                            b &= 0x7f7f_ffff;
                        }
                        b
                    },
                };
                Val::F(bits)
            },
            Kind::Bool => Val::U(r.below(2)),
            Kind::Char8 => Val::U(if r.chance(1, 4) { 0 } else if r.chance(1, 2) { r.range(0x21, 0x7e) } else { r.below(256) }),
            Kind::Enum8(e) => {
                let t = &self.spec.enums[e];
                Val::E(r.pick(t).0.clone())
            },
            Kind::Flags(_, fl) => {
                let t = &self.spec.flags[fl];
                let names: Vec<String> = match r.below(6) {
                    0 => vec![],
                    1 => t.iter().map(|x| x.0.clone()).collect(),
                    2 => vec![r.pick(t).0.clone()],
                    _ => t.iter().filter(|_| r.chance(1, 2)).map(|x| x.0.clone()).collect(),
                };
                Val::S(names)
            },
            Kind::Dur { bytes, .. } => Val::U(int_val(r, *bytes as u32 * 8, o.boundary)),
            Kind::Text { n, raw } => {
                if *raw && o.text == TextMode::Mixed {
                    // a raw field carries the string's own (UTF-8) bytes: size it by those
                    let target = if r.chance(1, 3) { *n } else { r.usize_below(*n + 1) };
                    let mut t = String::new();
                    loop {
                        let c = if r.chance(1, 2) { (0x21 + r.below(0x5e) as u8) as char } else { *r.pick(self.mixed_pool) };
                        if t.len() + c.len_utf8() > target {
                            break;
                        }
                        t.push(c);
                    }
                    Val::T(t)
                } else {
                    Val::T(self.text(r, *n, false, false, o))
                }
            },
            Kind::ZText(n) => Val::T(self.text(r, *n, true, false, o)),
            Kind::VText(n) => Val::T(self.text(r, *n, false, true, o)),
            Kind::ZVText(n) => Val::T(self.text(r, *n, true, true, o)),
            Kind::Vehicle => self.vehicle(r),
            Kind::Track => Val::T(r.pick(self.tracks).clone()),
            Kind::RaceLaps => Val::U(if r.chance(1, 3) { *r.pick(&[0u64, 1, 99, 100, 190, 191, 238]) } else { r.below(239) }),
            Kind::GameVer => {
                // numbers that print canonically (the typed value stores the number as a float)
                // (1..8 characters: an 8-character version fills the field and has no terminating NUL)
                let major = *r.pick(&["0.7", "0.6", "0.04", "0.5", "0.1", "0.3", "10.5", "0.125", "1", "0.25"]);
                let letter = (b'A' + r.below(26) as u8) as char;
                let room = 8 - major.len() - 1;
                let rev = match r.below(4) {
                    0 => String::new(),
                    1 => {
                        // fill the field exactly
                        let d = room.min(3);
                        if d == 0 { String::new() } else { format!("{}", 10u64.pow(d as u32 - 1) + r.below(9 * 10u64.pow(d as u32 - 1))) }
                    },
                    _ => format!("{}", 1 + r.below(98)),
                };
                let mut t = format!("{major}{letter}{rev}");
                if t.len() > 8 {
                    t = format!("{major}{letter}");
                }
                Val::T(t)
            },
            Kind::Ip => Val::B(r.bytes(4)),
            Kind::Nib(hi, lo) => {
                let lim = if o.hostile && r.chance(1, 4) { 256 } else { 16 };
                let _ = fm.insert(hi.clone(), Val::U(r.below(lim)));
                let _ = fm.insert(lo.clone(), Val::U(if lo == "SpareLow" { 0 } else { r.below(lim) }));
                return;
            },
            Kind::Bytes(n) => Val::B(r.bytes(*n)),
            Kind::Array(n, st) => {
                let lay = &self.spec.structs[st];
                Val::L((0..*n).map(|_| self.fields(r, &lay.fields, o)).collect())
            },
            Kind::List { elem, max, .. } => {
                let cap = if o.hostile { 300 } else { o.max_list.unwrap_or(*max).min(*max) };
                let n = match r.below(6) {
                    _ if o.hostile && r.chance(1, 2) => *r.pick(&[*max, *max + 1, 254, 255, 256, 257, *max - 1, 1, 3]),
                    0 => 0,
                    1 => cap,
                    2 => 1.min(cap),
                    _ => r.usize_below(cap + 1),
                };
                if elem == "u32" {
                    // MAL: distinct non-zero mod ids that are not built-in shaped
                    let mut seen = std::collections::HashSet::new();
                    let mut items = vec![];
                    while items.len() < n {
                        // in this list every entry is a mod id, also one whose bytes happen to spell a car name
                        // ("XFG\0", any three alphanumerics + NUL: ~1.4 % of real 3-byte ids)
                        let shaped = r.chance(1, 5).then(|| {
                            let mut b = [0u8; 4];
                            if r.chance(1, 2) {
                                b[..3].copy_from_slice(r.pick(&BUILTIN_CARS).as_bytes());
                            } else {
                                for x in b[..3].iter_mut() {
                                    *x = *r.pick(b"0123456789ABCXYZabcxyz");
                                }
                            }
                            u32::from_le_bytes(b) as u64
                        });
                        let id = match (shaped, self.vehicle(r)) {
                            (Some(id), _) => id,
                            (None, Val::U(id)) => id,
                            _ => continue,
                        };
                        if seen.insert(id) {
                            items.push(Val::U(id));
                        }
                    }
                    Val::P(items)
                } else if elem == "ip" {
                    let mut seen = std::collections::HashSet::new();
                    let mut items = vec![];
                    while items.len() < n {
                        let b = r.bytes(4);
                        if seen.insert(b.clone()) {
                            items.push(Val::B(b));
                        }
                    }
                    Val::P(items)
                } else {
                    let lay = &self.spec.structs[elem];
                    Val::L((0..n).map(|_| self.fields(r, &lay.fields, o)).collect())
                }
            },
            Kind::Small => {
                let (name, _, arm) = r.pick(&self.spec.small).clone();
                let _ = fm.insert("SubT".into(), Val::E(name));
                let uv = match arm {
                    SmallArm::Zero => None,
                    SmallArm::Dur { .. } => Some(Val::U(int_val(r, 32, o.boundary))),
                    SmallArm::Bool => Some(Val::U(r.below(2))),
                    SmallArm::Enum(e) => Some(Val::E(r.pick(&self.spec.enums[&e]).0.clone())),
                    SmallArm::Flags(fl) => {
                        if let (Some(vals), true) = (self.spec.values.get(&fl), r.chance(1, 2)) {
                            Some(Val::V(r.pick(vals).0.clone()))
                        } else {
                            let t = &self.spec.flags[&fl];
                            Some(Val::S(t.iter().filter(|_| r.chance(1, 2)).map(|x| x.0.clone()).collect()))
                        }
                    },
                };
                if let Some(v) = uv {
                    let _ = fm.insert("UVal".into(), v);
                }
                return;
            },
            Kind::Cim => {
                let arm = r.pick(&self.spec.cim).clone();
                let _ = fm.insert("Mode".into(), Val::E(arm.name.clone()));
                if !arm.sub.is_empty() {
                    let _ = fm.insert("SubMode".into(), Val::E(r.pick(&arm.sub).0.clone()));
                }
                if arm.seltype {
                    let _ = fm.insert("SelType".into(), Val::U(r.below(256)));
                }
                return;
            },
        };
        let _ = fm.insert(f.name.clone(), v);
    }

    pub fn fields(&self, r: &mut Rng, fields: &[Field], o: &GenOpts) -> FieldMap {
        let mut fm = FieldMap::new();
        for f in fields {
            self.field(r, f, &mut fm, o);
        }
        fm
    }

    /// A full in-domain assignment for a packet kind.
    pub fn packet(&self, r: &mut Rng, lay: &Layout, o: &GenOpts) -> FieldMap {
        let mut fm = self.fields(r, &lay.fields, o);
        let _ = fm.insert("ReqI".into(), Val::U(if r.chance(1, 4) { 0 } else { r.below(256) }));
        if lay.name == "MSO" {
            // TextStart: 0 or a character boundary inside Msg (kept as a character index)
            let n = match &fm["Msg"] {
                Val::T(t) => t.chars().count(),
                _ => 0,
            };
            let ts = if n == 0 || r.chance(1, 3) { 0 } else { r.usize_below(n + 1) };
            let _ = fm.insert("TextStart".into(), Val::U(ts as u64));
        }
        fm
    }
}

pub fn json_of(fm: &FieldMap) -> serde_json::Value {
    let mut m = serde_json::Map::new();
    for (k, v) in fm {
        let _ = m.insert(k.clone(), json_val(v));
    }
    serde_json::Value::Object(m)
}

pub fn json_val(v: &Val) -> serde_json::Value {
    use serde_json::json;
    match v {
        Val::U(x) => json!(x),
        Val::I(x) => json!(x),
        Val::F(b) => json!(format!("f32:{:#010x}", b)),
        Val::T(s) => json!(s),
        Val::B(b) => json!(format!("hex:{}", crate::ctx::hex(b))),
        Val::E(n) => json!(format!("enum:{n}")),
        Val::S(ns) => json!({ "flags": ns }),
        Val::V(n) => json!(format!("value:{n}")),
        Val::L(items) => serde_json::Value::Array(items.iter().map(json_of).collect()),
        Val::P(items) => serde_json::Value::Array(items.iter().map(json_val).collect()),
    }
}
