//! Small deterministic PRNG (SplitMix64 seeding xoshiro256**), stable across toolchains.

#[derive(Clone, Debug)]
pub struct Rng {
    s: [u64; 4],
}

fn splitmix(x: &mut u64) -> u64 {
    *x = x.wrapping_add(0x9E37_79B9_7F4A_7C15);
    let mut z = *x;
    z = (z ^ (z >> 30)).wrapping_mul(0xBF58_476D_1CE4_E5B9);
    z = (z ^ (z >> 27)).wrapping_mul(0x94D0_49BB_1331_11EB);
    z ^ (z >> 31)
}

impl Rng {
    pub fn new(seed: u64) -> Self {
        let mut x = seed ^ 0x5DEE_CE66_D1CE_4E5B;
        let s = [
            splitmix(&mut x),
            splitmix(&mut x),
            splitmix(&mut x),
            splitmix(&mut x),
        ];
        Rng { s }
    }

    /// Derive an independent stream (for shards / threads / named sub-checks).
    pub fn fork(&self, salt: u64) -> Rng {
        let mut x = self.s[0] ^ salt.wrapping_mul(0xA24B_AED4_963E_E407) ^ self.s[3].rotate_left(17);
        let s = [
            splitmix(&mut x),
            splitmix(&mut x),
            splitmix(&mut x),
            splitmix(&mut x),
        ];
        Rng { s }
    }

    pub fn next_u64(&mut self) -> u64 {
        let r = self.s[1].wrapping_mul(5).rotate_left(7).wrapping_mul(9);
        let t = self.s[1] << 17;
        self.s[2] ^= self.s[0];
        self.s[3] ^= self.s[1];
        self.s[1] ^= self.s[2];
        self.s[0] ^= self.s[3];
        self.s[2] ^= t;
        self.s[3] = self.s[3].rotate_left(45);
        r
    }

    pub fn next_u32(&mut self) -> u32 {
        (self.next_u64() >> 32) as u32
    }

    /// Uniform in 0..n (n > 0).
    pub fn below(&mut self, n: u64) -> u64 {
        debug_assert!(n > 0);
        // multiply-shift; bias is irrelevant for workload generation
        ((self.next_u64() as u128 * n as u128) >> 64) as u64
    }

    pub fn range(&mut self, lo: u64, hi_incl: u64) -> u64 {
        lo + self.below(hi_incl - lo + 1)
    }

    pub fn usize_below(&mut self, n: usize) -> usize {
        self.below(n as u64) as usize
    }

    pub fn chance(&mut self, num: u64, den: u64) -> bool {
        self.below(den) < num
    }

    pub fn pick<'a, T>(&mut self, xs: &'a [T]) -> &'a T {
        &xs[self.usize_below(xs.len())]
    }

    pub fn bytes(&mut self, n: usize) -> Vec<u8> {
        let mut v = Vec::with_capacity(n);
        while v.len() < n {
            let x = self.next_u64().to_le_bytes();
            let take = (n - v.len()).min(8);
            v.extend_from_slice(&x[..take]);
        }
        v
    }

    pub fn shuffle<T>(&mut self, xs: &mut [T]) {
        for i in (1..xs.len()).rev() {
            let j = self.usize_below(i + 1);
            xs.swap(i, j);
        }
    }
}
