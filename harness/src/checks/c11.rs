//! C11 — Text fields always occupy their exact wire width and terminate correctly.

use rayon::prelude::*;
use serde_json::json;

use crate::{
    bind,
    corpus::{self, mode_name, norm_debug, real_decode, real_encode, real_text_enc, Corpus, Dec, Enc, MODES},
    ctx::{guarded, hex, Ctx, Part},
    refspec::{FieldMap, GenOpts, Kind, Layout, TextMode, Val},
    rng::Rng,
};

#[derive(Clone, Debug)]
struct TextField {
    kind: String,
    /// top-level field, or (list field, struct field)
    path: Vec<String>,
    off: usize,
    spec: Kind,
}

fn text_fields(c: &Corpus) -> Vec<TextField> {
    let mut out = vec![];
    for lay in c.kinds() {
        for f in &lay.fields {
            match &f.kind {
                Kind::Text { .. } | Kind::ZText(_) | Kind::VText(_) | Kind::ZVText(_) => {
                    out.push(TextField { kind: lay.name.clone(), path: vec![f.name.clone()], off: f.off, spec: f.kind.clone() })
                },
                Kind::List { elem, .. } | Kind::Array(_, elem) => {
                    if let Some(st) = c.spec.structs.get(elem) {
                        for sf in &st.fields {
                            if matches!(sf.kind, Kind::Text { .. }) {
                                out.push(TextField { kind: lay.name.clone(), path: vec![f.name.clone(), sf.name.clone()], off: f.off + sf.off, spec: sf.kind.clone() });
                            }
                        }
                    }
                },
                _ => {},
            }
        }
    }
    out
}

/// Families of text of a requested encoded length (approximately): returns the string.
fn make_text(family: usize, units: usize, r: &mut Rng) -> String {
    let ascii = |r: &mut Rng| -> char {
        let c = 0x21 + r.below(0x5d) as u8;
        if c == b'^' {
            'x'
        } else {
            c as char
        }
    };
    match family {
        0 => (0..units).map(|_| ascii(r)).collect(),
        // single-byte non-Latin: "^C" + one byte per char
        1 => (0..units).map(|_| *r.pick(&['ж', 'я', 'ю', 'б', 'Д'])).collect(),
        // double-byte: marker + two bytes per char
        2 => (0..units).map(|_| *r.pick(&['あ', '美', '日', '本', '語'])).collect(),
        // marker-inserting: consecutive characters from different codepages (3+ bytes each)
        3 => (0..units).map(|i| [['ě', 'ж', 'ş', 'λ'][i % 4], ['あ', 'ķ', '한', 'é'][i % 4]][(i / 4) % 2]).collect(),
        // ASCII with a double-byte character placed to straddle the cut
        _ => {
            let mut s: String = (0..units.saturating_sub(1)).map(|_| ascii(r)).collect();
            s.push('美');
            s.push_str("tail");
            s
        },
    }
}

fn set_text(fm: &mut FieldMap, tf: &TextField, text: &str, c: &Corpus, r: &mut Rng) {
    if tf.path.len() == 1 {
        corpus::set(fm, &tf.path[0], Val::T(text.to_string()));
    } else {
        // one element in the list, with the text set
        let lay = c.kinds().iter().find(|l| l.name == tf.kind).unwrap();
        let f = lay.fields.iter().find(|f| f.name == tf.path[0]).unwrap();
        let elem = match &f.kind {
            Kind::List { elem, .. } | Kind::Array(_, elem) => elem.clone(),
            _ => unreachable!(),
        };
        let o = GenOpts { text: TextMode::Ascii, max_list: Some(1), boundary: 0, hostile: false };
        let mut e = c.gen().fields(r, &c.spec.structs[&elem].fields, &o);
        corpus::set(&mut e, &tf.path[1], Val::T(text.to_string()));
        corpus::set(fm, &tf.path[0], Val::L(vec![e]));
    }
}

fn is_double_byte_boundary(enc: &[u8], k: usize) -> bool {
    // heuristic used only to ACCEPT a one-byte shorter cut: byte k-1 (kept) .. the encoder may cut
    // before a two-byte character instead of splitting it
    k < enc.len() && enc[k] >= 0x81
}

fn check_case(c: &Corpus, lay: &Layout, tf: &TextField, text: &str, family: usize, base: &FieldMap, r: &mut Rng, p: &mut Part) {
    let mut fm = base.clone();
    set_text(&mut fm, tf, text, c, r);
    if lay.name == "MSO" {
        corpus::set(&mut fm, "TextStart", Val::U(0));
    }
    p.evaluations += 1;
    let raw = matches!(tf.spec, Kind::Text { raw: true, .. });
    let enc = real_text_enc(text, raw);
    let typed = match guarded(|| bind::from_fields(&c.spec, lay, &fm)) {
        Ok(Ok(t)) => t,
        other => {
            p.violation(format!("C11/{}/binding", lay.name), format!("cannot construct {}: {:?}", lay.name, other.map(|x| x.map(|_| ()))), json!({"kind": lay.name}));
            return;
        },
    };
    let fname = tf.path.join(".");
    for compressed in MODES {
        let replay = json!({"kind": lay.name, "field": fname, "mode": mode_name(compressed), "text": text, "encoded_text_hex": hex(&enc), "family": family});
        let frame = match real_encode(&typed, compressed) {
            Enc::Ok(f) => f,
            Enc::Err(_) => {
                // refusing is acceptable only for text that does not fit
                let fits = match &tf.spec {
                    Kind::Text { n, .. } | Kind::VText(n) => enc.len() <= *n,
                    Kind::ZText(n) | Kind::ZVText(n) => enc.len() <= *n - 1,
                    _ => true,
                };
                if fits {
                    p.violation(format!("C11/{}/{}/refused-though-fits", lay.name, fname), format!("{}.{fname}: text of {} encoded bytes fits the field but the encoder refuses", lay.name, enc.len()), replay);
                } else {
                    p.count("refused_oversize", 1);
                }
                continue;
            },
            Enc::Panic(pn) => {
                // a frame over the mode's limit cannot be represented: C03 judges panics; here only note
                p.count("encode_panics_seen", 1);
                let _ = pn;
                continue;
            },
        };
        // the field occupies the same bytes whatever writer the packet is serialised into: the public BinWrite impl on a
        // writer that accepts only a few bytes per call (a socket under load, a chunking wrapper)
        if compressed {
            use insim_core::binrw::BinWrite;
            let mut sink = crate::ioadapt::ShortSink::new(1 + frame.len() % 4);
            match guarded(|| typed.write(&mut sink)) {
                Ok(Ok(())) => {
                    let body = sink.bytes();
                    if body[..] != frame[1..] {
                        p.violation(
                            format!("C11/{}/{}/short-writing-writer", lay.name, fname),
                            format!("{}.{fname}: serialised into a writer that accepts {} byte(s) per call the packet has {} bytes instead of {}", lay.name, 1 + frame.len() % 4, body.len(), frame.len() - 1),
                            replay.clone(),
                        );
                    }
                },
                other => p.violation(format!("C11/{}/{}/short-writing-writer", lay.name, fname), format!("{}.{fname}: serialising into a short-writing writer: {:?}", lay.name, other.map(|x| x.map_err(|e| e.to_string()))), replay.clone()),
            }
        }
        p.distinct(&(compressed, &frame));
        let (range, expect_total): (&[u8], Option<usize>) = match &tf.spec {
            Kind::Text { n, .. } | Kind::ZText(n) => {
                if frame.len() < tf.off + n {
                    p.violation(format!("C11/{}/{}/field-cut-short", lay.name, fname), format!("{}.{fname}: frame of {} bytes ends inside the {}-byte field at {}", lay.name, frame.len(), n, tf.off), replay.clone());
                    continue;
                }
                (&frame[tf.off..tf.off + n], Some(lay.base + if lay.variable { frame.len() - lay.base } else { 0 }))
            },
            _ => (&frame[tf.off.min(frame.len())..], None),
        };
        let _ = expect_total;
        // content = prefix of enc, then only NULs
        let k = range.iter().zip(enc.iter()).take_while(|(a, b)| a == b).count();
        let rest_is_nul = range[k..].iter().all(|b| *b == 0);
        let why = |what: &str| format!("{}.{fname} ({}): {what}; text {} bytes encoded, field bytes {}", lay.name, mode_name(compressed), enc.len(), hex(range));
        match &tf.spec {
            Kind::Text { n, .. } => {
                if !lay.variable && frame.len() != lay.base {
                    p.violation(format!("C11/{}/{}/frame-size", lay.name, fname), why(&format!("frame is {} bytes, the packet is {} bytes", frame.len(), lay.base)), replay.clone());
                }
                if k != enc.len().min(*n) || !rest_is_nul {
                    p.violation(format!("C11/{}/{}/fixed-content", lay.name, fname), why("field must be the encoded text truncated to its width, then NULs"), replay.clone());
                }
            },
            Kind::ZText(n) => {
                if frame.len() != lay.base {
                    p.violation(format!("C11/{}/{}/frame-size", lay.name, fname), why(&format!("frame is {} bytes, the packet is {} bytes", frame.len(), lay.base)), replay.clone());
                }
                if range[n - 1] != 0 {
                    p.violation(format!("C11/{}/{}/no-terminator", lay.name, fname), why("last byte of the field must be NUL"), replay.clone());
                } else {
                    let want = enc.len().min(n - 1);
                    let ok = rest_is_nul && (k == want || (k + 1 == want && is_double_byte_boundary(&enc, k)));
                    if !ok {
                        p.violation(format!("C11/{}/{}/fixed-content", lay.name, fname), why("field must be the encoded text truncated to width-1, then NULs"), replay.clone());
                    }
                }
            },
            Kind::VText(m) | Kind::ZVText(m) => {
                let z = matches!(tf.spec, Kind::ZVText(_));
                if range.len() % 4 != 0 || frame.len() % 4 != 0 {
                    p.violation(format!("C11/{}/{}/not-multiple-of-4", lay.name, fname), why("variable text must be NUL-padded to a multiple of 4"), replay.clone());
                }
                if range.len() > *m {
                    p.violation(format!("C11/{}/{}/exceeds-maximum", lay.name, fname), why(&format!("variable text exceeds its maximum {m}")), replay.clone());
                }
                if !rest_is_nul {
                    p.violation(format!("C11/{}/{}/variable-content", lay.name, fname), why("field must be a prefix of the encoded text, then NULs"), replay.clone());
                }
                let cap = if z { m - 1 } else { *m };
                if enc.len() <= cap && k != enc.len() {
                    p.violation(format!("C11/{}/{}/text-dropped", lay.name, fname), why("text that fits must be present in full"), replay.clone());
                }
                if enc.len() > cap && !(k >= cap || (k + 1 == cap && is_double_byte_boundary(&enc, k))) {
                    p.violation(format!("C11/{}/{}/truncated-too-much", lay.name, fname), why("over-long text must be truncated to the field's capacity"), replay.clone());
                }
                if z && frame.last() != Some(&0) {
                    p.violation(format!("C11/{}/{}/no-terminator", lay.name, fname), why("the packet must end in a NUL byte"), replay.clone());
                }
            },
            _ => {},
        }
        // decoding stops at the first NUL: t || 0 || garbage  ==  t || 0 || zeros
        let fixed_n = match &tf.spec {
            Kind::Text { n, .. } | Kind::ZText(n) => Some(*n),
            _ => None,
        };
        let end = fixed_n.map(|n| tf.off + n).unwrap_or(frame.len());
        let width = end - tf.off;
        if width >= 3 {
            for cut in [0usize, width / 2, width - 2] {
                let mut a = frame.clone();
                let mut b = frame.clone();
                // keep `cut` bytes of text (replace NULs inside with 'a'), then NUL, then garbage
                for i in 0..cut {
                    if a[tf.off + i] == 0 {
                        a[tf.off + i] = b'a';
                    }
                    b[tf.off + i] = a[tf.off + i];
                }
                a[tf.off + cut] = 0;
                b[tf.off + cut] = 0;
                for i in cut + 1..width {
                    a[tf.off + i] = 0;
                    b[tf.off + i] = 0x41 + (r.below(50) as u8);
                }
                // the bytes after the first NUL may themselves hold NULs (LFS's own BTN caption form is NUL, caption,
                // NUL, text): one or two more, anywhere behind at least one garbage byte
                if width - cut >= 4 && r.chance(2, 3) {
                    for _ in 0..1 + r.usize_below(2) {
                        let at = cut + 2 + r.usize_below(width - cut - 2);
                        b[tf.off + at] = 0;
                    }
                }
                p.evaluations += 1;
                match (real_decode(&a, compressed), real_decode(&b, compressed)) {
                    (Dec::Packet(pa, _), Dec::Packet(pb, _)) => {
                        if norm_debug(&pa) != norm_debug(&pb) {
                            p.violation(
                                format!("C11/{}/{}/decode-past-nul", lay.name, fname),
                                format!("{}.{fname}: bytes after the first NUL change the decoded value: {} vs {}", lay.name, clip(&norm_debug(&pa)), clip(&norm_debug(&pb))),
                                json!({"kind": lay.name, "field": fname, "frame_zeros": hex(&a), "frame_garbage": hex(&b)}),
                            );
                        }
                    },
                    (Dec::Panic(pn), _) | (_, Dec::Panic(pn)) => p.violation(format!("C11/{}/{}/decode-panic", lay.name, fname), format!("decoding panicked: {pn}"), json!({"frame": hex(&b)})),
                    _ => p.count("decode_after_nul_not_comparable", 1),
                }
            }
        }
    }
}

fn clip(s: &str) -> String {
    s.chars().take(300).collect()
}

pub fn run(ctx: &mut Ctx) -> (&'static str, String, bool) {
    let c = match Corpus::load() {
        Ok(c) => c,
        Err(e) => {
            ctx.inconclusive(format!("cannot load the reference specification: {e}"));
            return ("exploration", "spec missing".into(), false);
        },
    };
    let c = &c;
    let fields = text_fields(c);
    ctx.extra("text_fields", json!(fields.iter().map(|f| format!("{}.{}", f.kind, f.path.join("."))).collect::<Vec<_>>()));
    let base_rng = ctx.rng.fork(11);
    let stride = ctx.tier.pick(3usize, 1usize);
    let seed_off = (ctx.seed % stride as u64) as usize;
    let parts: Vec<Part> = fields
        .par_iter()
        .enumerate()
        .map(|(fi, tf)| {
            let mut p = Part::new();
            let mut r = base_rng.fork(fi as u64);
            let lay = c.kinds().iter().find(|l| l.name == tf.kind).unwrap();
            let width = match &tf.spec {
                Kind::Text { n, .. } | Kind::ZText(n) | Kind::VText(n) | Kind::ZVText(n) => *n,
                _ => 0,
            };
            let o = GenOpts { text: TextMode::Ascii, max_list: Some(1), boundary: 0, hostile: false };
            let base = c.gen().packet(&mut r, lay, &o);
            let raw = matches!(tf.spec, Kind::Text { raw: true, .. });
            for family in 0..5usize {
                if raw && family != 0 {
                    continue;
                }
                // units so that encoded lengths run 0..2N; every length around the width is always included
                let per = [1usize, 1, 2, 3, 1][family];
                let max_units = 2 * width / per + 2;
                for units in 0..=max_units {
                    let near = {
                        let est = units * per + if family == 0 || family == 4 { 0 } else { 2 };
                        est + 6 >= width && est <= width + 6
                    };
                    if !near && units % stride != seed_off && units > 8 {
                        continue;
                    }
                    let text = make_text(family, units, &mut r);
                    // the packet's other fields: the first assignment, or (every third step) a fresh boundary-biased one,
                    // so that a rule keyed on another field (BTN TypeIn, MSO UserType, flags) meets every text shape
                    if units % 3 == 2 {
                        let o2 = GenOpts { text: TextMode::Ascii, max_list: Some(1), boundary: 3, hostile: false };
                        let other = c.gen().packet(&mut r, lay, &o2);
                        check_case(c, lay, tf, &text, family, &other, &mut r, &mut p);
                    } else {
                        check_case(c, lay, tf, &text, family, &base, &mut r, &mut p);
                    }
                }
            }
            p.count(&format!("field_{}.{}", tf.kind, tf.path.join(".")), p.evaluations);
            p
        })
        .collect();
    for p in parts {
        ctx.merge(p);
    }

    // ---- the same text in two fields of different geometry, one encode right after the other on one thread: the second
    //      frame must be what a thread that never saw the first one produces (nothing about a text may be remembered
    //      across fields, widths or modes) ----------------------------------------------------------------------------
    if ctx.stage.as_deref() != Some("miri") {
        let mut p = Part::new();
        let mut r = base_rng.fork(1100);
        let texts = ["Привет, мир", "ěščřžýáíé", "日本語テキスト", "éàü€ß", "ab^1cd", "한국어 텍스트"];
        let mut prepared: Vec<(String, insim::Packet)> = vec![];
        for tf in &fields {
            if matches!(tf.spec, Kind::Text { raw: true, .. }) {
                continue;
            }
            let lay = c.kinds().iter().find(|l| l.name == tf.kind).unwrap();
            for text in texts {
                let o = GenOpts { text: TextMode::Ascii, max_list: Some(1), boundary: 0, hostile: false };
                let mut fm = c.gen().packet(&mut r, lay, &o);
                set_text(&mut fm, tf, text, c, &mut r);
                if lay.name == "MSO" {
                    corpus::set(&mut fm, "TextStart", Val::U(0));
                }
                if let Ok(Ok(pk)) = guarded(|| bind::from_fields(&c.spec, lay, &fm)) {
                    prepared.push((format!("{}.{} <- {:?}", tf.kind, tf.path.join("."), text), pk));
                }
            }
        }
        let npairs = ctx.tier.pick(150usize, 1500usize);
        for _ in 0..npairs {
            if prepared.len() < 2 {
                break;
            }
            let a = r.usize_below(prepared.len());
            let b = r.usize_below(prepared.len());
            let compressed_a = r.chance(1, 2);
            let compressed_b = r.chance(1, 2);
            let (la, pa) = prepared[a].clone();
            let (lb, pb) = prepared[b].clone();
            // a thread that encodes B only, and a thread that encodes A and then B
            let pb1 = pb.clone();
            let alone = std::thread::spawn(move || real_encode(&pb1, compressed_b)).join();
            // (every other pair: A is serialised into a fixed buffer that is too small, so that its write fails part-way
            // through - what an earlier failed write leaves behind must not show in B either)
            let failing = r.chance(1, 2);
            let room = r.usize_below(48);
            let after = std::thread::spawn(move || {
                if failing {
                    use insim_core::binrw::BinWrite;
                    let mut small = [0u8; 48];
                    let mut cur = std::io::Cursor::new(&mut small[..room]);
                    let _ = guarded(|| pa.write(&mut cur).map_err(|e| e.to_string()));
                } else {
                    let _ = real_encode(&pa, compressed_a);
                }
                real_encode(&pb, compressed_b)
            })
            .join();
            p.evaluations += 1;
            p.distinct(&(a, b, compressed_a, compressed_b));
            let same = match (&alone, &after) {
                (Ok(Enc::Ok(x)), Ok(Enc::Ok(y))) => x == y,
                (Ok(Enc::Err(_)), Ok(Enc::Err(_))) | (Ok(Enc::Panic(_)), Ok(Enc::Panic(_))) => true,
                _ => false,
            };
            if !same {
                let len = |x: &std::thread::Result<Enc>| match x {
                    Ok(Enc::Ok(f)) => format!("{} bytes", f.len()),
                    Ok(Enc::Err(e)) => format!("error {e}"),
                    Ok(Enc::Panic(e)) => format!("panic {e}"),
                    Err(_) => "thread panicked".to_string(),
                };
                p.violation(
                    "C11/field-depends-on-previous-encode",
                    format!("encoding [{lb}] gives {} on its own but {} right after {} [{la}] on the same thread", len(&alone), len(&after), if failing { "a write that ran out of room part-way through" } else { "encoding" }),
                    json!({"first": la, "second": lb, "mode_first": mode_name(compressed_a), "mode_second": mode_name(compressed_b)}),
                );
            }
        }
        ctx.merge(p);
    }

    // SMX track name (32 bytes)
    {
        use insim_core::binrw::{BinRead, BinWrite};
        let mut p = Part::new();
        let mut r = ctx.rng.fork(1111);
        for family in 0..4usize {
            for units in 0..70usize {
                let text = make_text(family, units, &mut r);
                let enc = real_text_enc(&text, false);
                let mut smx = insim_smx::Smx::default();
                smx.track = text.clone();
                let mut cur = std::io::Cursor::new(Vec::new());
                p.evaluations += 1;
                match guarded(|| smx.write(&mut cur)) {
                    Ok(Ok(())) => {
                        let b = cur.into_inner();
                        // magic 6 + 6 header bytes + 4 pad = 16
                        let range = &b[16..48.min(b.len())];
                        let k = range.iter().zip(enc.iter()).take_while(|(a, b)| a == b).count();
                        if range.len() != 32 || k != enc.len().min(32) || !range[k..].iter().all(|x| *x == 0) {
                            p.violation("C11/SMX/track/fixed-content", format!("SMX track field is {} for text encoding to {}", hex(range), hex(&enc)), json!({"text": text}));
                        }
                        if let Ok(Ok(back)) = guarded(|| insim_smx::Smx::read(&mut std::io::Cursor::new(&b))) {
                            let expect = insim_core::string::codepages::to_lossy_string(&enc[..enc.len().min(32)]).to_string();
                            if back.track != expect && enc.len() <= 32 {
                                p.violation("C11/SMX/track/roundtrip", format!("SMX track {:?} read back as {:?}", text, back.track), json!({"text": text}));
                            }
                        }
                    },
                    other => p.violation("C11/SMX/track/write-failed", format!("writing an SMX with track {:?} failed: {:?}", text, other), json!({"text": text})),
                }
            }
        }
        ctx.merge(p);
    }
    ctx.sample(json!({"kind": "MST", "field": "Msg", "text": "a".repeat(70), "expectation": "63 bytes of text then NUL, 68-byte frame"}));
    ctx.sample(json!({"kind": "MTC", "field": "Text", "text": "abcd", "expectation": "abcd then 4 NULs (must end in NUL), 16-byte frame"}));
    ctx.assume("enc(text) is the library's own codepage encoder (judged by C10); field positions and widths come from ref/insim_v9.spec");
    (
        "exploration",
        "every text-bearing field of every kind (and the SMX track name) x five text families (ASCII, single-byte non-Latin, double-byte, marker-inserting, double-byte straddling the cut) x encoded lengths 0..2N (every length within 6 of the width; others strided in quick) x both size modes; plus t||NUL||garbage decode cases at three cut positions; distinct = distinct (mode, frame)".into(),
        false,
    )
}
