//! Hang journal: "it never returns" is decided logically, not by a wall-clock deadline on a loaded machine.
//!
//! Every worker publishes the case it is about to execute in its slot. A watchdog thread notices a
//! slot that has not moved for `SUSPECT_SECS`; the suspected case is then re-executed alone in a
//! fresh process (`vcheck <id> --hang-case <hex>`) with a budget many orders of magnitude above its
//! normal cost. Only if that second run does not return either is the case reported as a violation;
//! if it returns, the run is flagged inconclusive (the machine was too loaded to tell).

use std::{
    sync::{
        atomic::{AtomicBool, AtomicU64, Ordering},
        Arc, Mutex,
    },
    time::{Duration, Instant},
};

pub struct Slot {
    seq: AtomicU64,
    busy: AtomicBool,
    case: Mutex<Vec<u8>>,
}

static SLOTS: Mutex<Vec<Arc<Slot>>> = Mutex::new(Vec::new());

thread_local! {
    static MY: Arc<Slot> = {
        let s = Arc::new(Slot { seq: AtomicU64::new(0), busy: AtomicBool::new(false), case: Mutex::new(Vec::new()) });
        SLOTS.lock().unwrap().push(s.clone());
        s
    };
}

/// Publish the case that is about to run on this thread.
pub fn enter(case: &[u8]) {
    MY.with(|s| {
        {
            let mut c = s.case.lock().unwrap();
            c.clear();
            c.extend_from_slice(case);
        }
        let _ = s.seq.fetch_add(1, Ordering::Release);
        s.busy.store(true, Ordering::Release);
    });
}

pub fn leave() {
    MY.with(|s| s.busy.store(false, Ordering::Release));
}

pub const SUSPECT_SECS: u64 = 60;
pub const CONFIRM_SECS: u64 = 240;

pub enum HangVerdict {
    /// the isolated re-run did not return within CONFIRM_SECS
    Confirmed(Vec<u8>),
    /// the isolated re-run returned: the first observation was load, not a hang
    NotReproduced(Vec<u8>),
}

/// Start the watchdog. `on_hang` is called from the watchdog thread (the workers may be stuck
/// forever) and is expected to write evidence and exit the process.
pub fn start_watchdog(id: &str, mode_args: Vec<String>, on_hang: impl Fn(HangVerdict) + Send + 'static) {
    let id = id.to_string();
    let _ = std::thread::Builder::new().name("hang-watchdog".into()).spawn(move || {
        let mut seen: Vec<(u64, Instant)> = vec![];
        loop {
            std::thread::sleep(Duration::from_secs(2));
            let slots: Vec<Arc<Slot>> = SLOTS.lock().unwrap().clone();
            seen.resize(slots.len(), (u64::MAX, Instant::now()));
            for (i, s) in slots.iter().enumerate() {
                let seq = s.seq.load(Ordering::Acquire);
                let busy = s.busy.load(Ordering::Acquire);
                if !busy || seen[i].0 != seq {
                    seen[i] = (seq, Instant::now());
                    continue;
                }
                if seen[i].1.elapsed() >= Duration::from_secs(SUSPECT_SECS) {
                    let case = s.case.lock().unwrap().clone();
                    let exe = std::env::current_exe().unwrap();
                    let mut cmd = std::process::Command::new("timeout");
                    let _ = cmd
                        .arg("-s")
                        .arg("KILL")
                        .arg(format!("{}", CONFIRM_SECS))
                        .arg(exe)
                        .arg(&id)
                        .args(&mode_args)
                        .arg("--hang-case")
                        .arg(crate::ctx::hex(&case));
                    let status = cmd.status();
                    let returned = matches!(status, Ok(st) if st.code().is_some() && st.code() != Some(137));
                    if returned {
                        on_hang(HangVerdict::NotReproduced(case));
                    } else {
                        on_hang(HangVerdict::Confirmed(case));
                    }
                    return;
                }
            }
        }
    });
}
