//! C03 — Every successfully encoded frame is a single well-formed frame.

use rayon::prelude::*;
use serde_json::json;

use crate::{
    bind,
    corpus::{mode_name, real_decode, real_encode, real_text_enc, Corpus, Dec, Enc, MODES},
    ctx::{guarded, hex, panic_site, Ctx, Part},
    refspec::{json_of, limit, GenOpts, Kind, Layout, TextMode},
};

fn clip(s: &str) -> String {
    s.chars().take(300).collect()
}

/// First clause on a frame the encoder returned Ok for. `elements` = generated collection length if known.
fn well_formed(c: &Corpus, kind: &str, frame: &[u8], compressed: bool, elements: Option<usize>, origin: &str, replay: &serde_json::Value, p: &mut Part) {
    let n = frame.len();
    let lim = limit(compressed);
    let sig = |what: &str| format!("C03/{kind}/{origin}/{what}");
    if n % 4 != 0 {
        p.violation(sig("length-not-multiple-of-4"), format!("{kind} {}: encoder returned {n} bytes", mode_name(compressed)), replay.clone());
    }
    if n < 4 || n > lim {
        p.violation(sig("length-out-of-range"), format!("{kind} {}: encoder returned {n} bytes (limit {lim})", mode_name(compressed)), replay.clone());
    }
    if n == 0 {
        return;
    }
    let announced = if compressed { frame[0] as usize * 4 } else { frame[0] as usize };
    if announced != n {
        p.violation(
            sig("size-byte-wrong"),
            format!("{kind} {}: frame is {n} bytes but its size byte {} announces {announced}", mode_name(compressed), frame[0]),
            replay.clone(),
        );
    }
    // element count byte
    if let Some(lay) = c.kinds().iter().find(|l| l.name == kind) {
        let count = lay.fields.iter().find_map(|f| match &f.kind {
            Kind::Count(l) => Some((f.off, l.clone())),
            _ => None,
        });
        if let Some((coff, lname)) = count {
            if let Some(lf) = lay.fields.iter().find(|f| f.name == lname) {
                if let Kind::List { elem, pad2odd, .. } = &lf.kind {
                    let esz = c.spec.structs.get(elem).map(|s| s.base).unwrap_or(4);
                    if n > coff && n >= lf.off {
                        let cnt = frame[coff] as usize;
                        let body = n - lf.off;
                        let ok_len = body == cnt * esz || (*pad2odd && cnt % 2 == 1 && body == cnt * esz + 2);
                        if !ok_len {
                            p.violation(
                                sig("count-byte-wrong"),
                                format!("{kind} {}: count byte {cnt} but {} bytes of {esz}-byte elements follow", mode_name(compressed), body),
                                replay.clone(),
                            );
                        }
                        if let Some(e) = elements {
                            if e != cnt {
                                p.violation(sig("count-byte-wrong"), format!("{kind} {}: {e} elements were given, count byte says {cnt}", mode_name(compressed)), replay.clone());
                            }
                        }
                    }
                }
            }
        }
    }
    // decoding consumes it completely and returns the same kind
    if n >= 4 && n <= lim && announced == n {
        let mut with_tail = frame.to_vec();
        with_tail.extend_from_slice(&[4, 3, 0, 0]);
        match real_decode(&with_tail, compressed) {
            Dec::Packet(q, left) => {
                if left != 4 {
                    p.violation(sig("decode-consumes-wrong-amount"), format!("{kind} {}: decoding the frame left {left} bytes instead of the 4 that follow it", mode_name(compressed)), replay.clone());
                }
                let k2 = bind::kind_of(&q);
                if k2 != kind {
                    p.violation(sig("decodes-as-other-kind"), format!("{kind} {}: the frame decodes as {k2}", mode_name(compressed)), replay.clone());
                }
            },
            Dec::NeedMore => p.violation(sig("decode-needmore"), format!("{kind} {}: own frame reported incomplete", mode_name(compressed)), replay.clone()),
            Dec::Err(e, _) => p.violation(sig("own-frame-rejected"), format!("{kind} {}: the encoder's frame is rejected by the decoder: {e}", mode_name(compressed)), replay.clone()),
            Dec::Panic(pn) => p.violation(sig("decode-panic"), format!("{kind} {}: decoding the encoder's frame panicked: {pn}", mode_name(compressed)), replay.clone()),
        }
    }
}

fn elements_of(lay: &Layout, fm: &crate::refspec::FieldMap) -> Option<usize> {
    lay.fields.iter().find_map(|f| match &f.kind {
        Kind::List { .. } => match fm.get(&f.name) {
            Some(crate::refspec::Val::L(v)) => Some(v.len()),
            Some(crate::refspec::Val::P(v)) => Some(v.len()),
            _ => None,
        },
        _ => None,
    })
}

pub fn run(ctx: &mut Ctx) -> (&'static str, String, bool) {
    let c = match Corpus::load() {
        Ok(c) => c,
        Err(e) => {
            ctx.inconclusive(format!("cannot load the reference specification: {e}"));
            return ("exploration", "spec missing".into(), false);
        },
    };
    let c = &c;
    let n_hostile = ctx.tier.pick(1_500u64, 20_000u64);
    let n_decoded = ctx.tier.pick(8_000u64, 300_000u64);
    let base_rng = ctx.rng.fork(3);
    let parts: Vec<Part> = c
        .kinds()
        .par_iter()
        .enumerate()
        .map(|(ki, lay)| {
            let mut p = Part::new();
            let mut r = base_rng.fork(ki as u64);
            let g = c.gen();
            // ---- clause 1: packets built through the public API, in-domain and hostile -----------
            for i in 0..n_hostile {
                let o = GenOpts { text: if i % 3 == 0 { TextMode::Mixed } else { TextMode::Ascii }, max_list: None, boundary: 6, hostile: i % 4 != 0 };
                let mut fm = g.packet(&mut r, lay, &o);
                if lay.name == "MSO" {
                    // keep textstart inside the message so that the typed value is well defined
                    if let Some(crate::refspec::Val::T(t)) = fm.get("Msg").cloned() {
                        let n = t.chars().count().min(60);
                        crate::corpus::set(&mut fm, "TextStart", crate::refspec::Val::U(r.below(n as u64 + 1)));
                    }
                }
                let typed = match guarded(|| bind::from_fields(&c.spec, lay, &fm)) {
                    Ok(Ok(t)) => t,
                    _ => {
                        p.count("unbuildable_hostile_assignments", 1);
                        continue;
                    },
                };
                let elements = elements_of(lay, &fm);
                for compressed in MODES {
                    p.evaluations += 1;
                    let img = c.spec.encode(lay, &fm, compressed, &real_text_enc);
                    let replay = json!({"kind": lay.name, "mode": mode_name(compressed), "origin": "api", "hostile": o.hostile, "elements": elements, "fields": json_of(&fm)});
                    match real_encode(&typed, compressed) {
                        Enc::Ok(f) => {
                            p.distinct(&(compressed, &f));
                            p.count("encoded_ok", 1);
                            well_formed(c, &lay.name, &f, compressed, elements, "api", &replay, &mut p);
                        },
                        Enc::Err(_) => p.count("refused_with_error", 1),
                        Enc::Panic(pn) => {
                            p.count("refused_with_panic", 1);
                            if img.representable.is_ok() {
                                p.violation(
                                    format!("C03/{}/api/panic-on-representable/{}", lay.name, panic_site(&pn)),
                                    format!("{} {}: a packet the specification can represent ({} bytes) makes the encoder panic: {pn}", lay.name, mode_name(compressed), img.frame.len()),
                                    replay,
                                );
                            }
                        },
                    }
                }
            }
            // ---- clause 2: packets obtained by decoding accepted frames ---------------------------
            let mut accepted = 0u64;
            for i in 0..n_decoded {
                let compressed = i % 2 == 0;
                let o = GenOpts { text: if i % 3 == 0 { TextMode::Mixed } else { TextMode::Ascii }, max_list: None, boundary: 8, hostile: false };
                let fm = g.packet(&mut r, lay, &o);
                let img = c.spec.encode(lay, &fm, compressed, &real_text_enc);
                if img.representable.is_err() {
                    continue;
                }
                let mut frame = img.frame.clone();
                // 4-byte identifiers a peer may legitimately send but the typed API never produces: zero,
                // built-in names inside mod lists, lower-case / shifted names ...
                if i % 2 == 1 {
                    const IDS: [[u8; 4]; 8] = [[0, 0, 0, 0], *b"XFG\0", *b"BF1\0", *b"xfg\0", [0, b'X', b'F', b'G'], *b"AB1\0", *b"FXR\0", [b'X', b'F', 0, 0]];
                    for f in &lay.fields {
                        match &f.kind {
                            Kind::Vehicle if frame.len() >= f.off + 4 => frame[f.off..f.off + 4].copy_from_slice(&r.pick(&IDS[..])[..]),
                            Kind::List { elem, .. } if elem == "u32" => {
                                let mut off = f.off;
                                while off + 4 <= frame.len() {
                                    if r.chance(1, 3) {
                                        frame[off..off + 4].copy_from_slice(&r.pick(&IDS[..])[..]);
                                    }
                                    off += 4;
                                }
                            },
                            _ => {},
                        }
                    }
                }
                // LFS-style and hostile variations: reserved bits, terminators, TextStart, counts...
                let nmut = match i % 5 {
                    0 => 0,
                    1 => 1,
                    2 => 2,
                    _ => 1 + r.usize_below(6),
                };
                for _ in 0..nmut {
                    if frame.len() > 3 {
                        let pos = 2 + r.usize_below(frame.len() - 2);
                        frame[pos] = match r.below(4) {
                            0 => 0xff,
                            1 => 0,
                            2 => frame[pos] ^ (1 << r.below(8)),
                            _ => r.below(256) as u8,
                        };
                    }
                }
                p.evaluations += 1;
                let Dec::Packet(q, _) = real_decode(&frame, compressed) else { continue };
                accepted += 1;
                p.distinct(&(compressed, &frame));
                let kind = bind::kind_of(&q);
                let replay = json!({"kind": kind, "mode": mode_name(compressed), "origin": "decoded", "accepted_frame": hex(&frame), "decoded": clip(&format!("{:?}", q))});
                for m2 in MODES {
                    match real_encode(&q, m2) {
                        Enc::Ok(f2) => well_formed(c, &kind, &f2, m2, None, "decoded", &replay, &mut p),
                        Enc::Err(_) => p.count("decoded_refused_with_error", 1),
                        Enc::Panic(pn) => {
                            // a decoded packet never makes the encoder abort -- unless it simply cannot exist in the other size mode
                            let too_big_for_mode = !m2 && frame.len() > limit(false);
                            if !too_big_for_mode {
                                p.violation(
                                    format!("C03/{kind}/decoded/encoder-panic/{}", panic_site(&pn)),
                                    format!("{kind}: a packet obtained by decoding {} makes the {} encoder panic: {pn}", clip(&hex(&frame)), mode_name(m2)),
                                    replay.clone(),
                                );
                            } else {
                                p.count("decoded_too_big_for_uncompressed", 1);
                            }
                        },
                    }
                }
            }
            p.count("decoded_origin_packets", accepted);
            if ki == 0 {
                p.sample(json!({"kind": lay.name, "note": "clause 1: typed packet -> encoder; clause 2: reference frame (+ byte mutations) -> decoder -> encoder"}));
            }
            p
        })
        .collect();
    for p in parts {
        ctx.merge(p);
    }
    // targeted cases named in the property
    {
        let mut p = Part::new();
        let mut r = ctx.rng.fork(33);
        let g = c.gen();
        for (kind, counts) in [("NLP", (0..=60).collect::<Vec<usize>>()), ("MCI", (0..=45).collect()), ("AXM", (0..=130).collect()), ("MAL", (0..=130).collect()), ("IPB", (0..=130).collect()), ("PLH", (0..=70).collect()), ("HOS", (0..=30).collect())] {
            let lay = c.spec.packet(kind);
            for n in counts {
                let o = GenOpts { text: TextMode::Ascii, max_list: None, boundary: 0, hostile: false };
                let mut fm = g.packet(&mut r, lay, &o);
                let lf = lay.fields.iter().find(|f| matches!(f.kind, Kind::List { .. })).unwrap();
                let Kind::List { elem, .. } = &lf.kind else { unreachable!() };
                let v = if elem == "u32" {
                    crate::refspec::Val::P((0..n).map(|i| crate::refspec::Val::U(0x0100_0000 + i as u64)).collect())
                } else if elem == "ip" {
                    crate::refspec::Val::P((0..n).map(|i| crate::refspec::Val::B(vec![10, 0, (i / 250) as u8, (i % 250) as u8 + 1])).collect())
                } else {
                    let oo = GenOpts { text: TextMode::Ascii, max_list: None, boundary: 0, hostile: false };
                    crate::refspec::Val::L((0..n).map(|_| g.fields(&mut r, &c.spec.structs[elem].fields, &oo)).collect())
                };
                crate::corpus::set(&mut fm, &lf.name, v);
                let Ok(Ok(typed)) = guarded(|| bind::from_fields(&c.spec, lay, &fm)) else { continue };
                for compressed in MODES {
                    p.evaluations += 1;
                    let img = c.spec.encode(lay, &fm, compressed, &real_text_enc);
                    let replay = json!({"kind": kind, "mode": mode_name(compressed), "origin": "api", "elements": n});
                    match real_encode(&typed, compressed) {
                        Enc::Ok(f) => {
                            p.distinct(&(compressed, &f));
                            well_formed(c, kind, &f, compressed, Some(n), "api", &replay, &mut p);
                        },
                        Enc::Err(_) => p.count("refused_with_error", 1),
                        Enc::Panic(pn) => {
                            if img.representable.is_ok() {
                                p.violation(
                                    format!("C03/{kind}/api/panic-on-representable/{}", panic_site(&pn)),
                                    format!("{kind} {} with {n} elements ({} bytes, representable) makes the encoder panic: {pn}", mode_name(compressed), img.frame.len()),
                                    replay,
                                );
                            } else {
                                p.count("refused_with_panic", 1);
                            }
                        },
                    }
                }
            }
        }
        ctx.merge(p);
    }
    // ---- IS_VER: the 8-byte version field holds text that the library parses into a number, a letter and a revision and
    //      prints again on encoding. The printed form can be longer than what was read (".5A12345" prints as
    //      "0.5A12345"): whatever was decoded must still encode to a well-formed 20-byte frame or be refused ----------
    {
        let mut p = Part::new();
        const A: [u8; 6] = [b'.', b'0', b'5', b'9', b'A', b'f'];
        let n = 6u64.pow(8);
        let stride = ctx.tier.pick(97u64, 7u64);
        let mut i = ctx.seed % stride;
        while i < n {
            let mut idx = i;
            let mut v = [0u8; 8];
            for b in v.iter_mut() {
                *b = A[(idx % 6) as usize];
                idx /= 6;
            }
            i += stride;
            for compressed in MODES {
                let mut f = vec![if compressed { 5u8 } else { 20 }, 2, 1, 0];
                f.extend_from_slice(&v);
                f.extend_from_slice(b"S3\0\0\0\0");
                f.extend_from_slice(&[9, 0]);
                let Dec::Packet(pk, _) = real_decode(&f, compressed) else { continue };
                p.evaluations += 1;
                p.distinct(&(compressed, v));
                let replay = json!({"kind": "VER", "mode": mode_name(compressed), "origin": "decoded", "frame": hex(&f)});
                match real_encode(&pk, compressed) {
                    Enc::Ok(out) => {
                        well_formed(c, "VER", &out, compressed, None, "decoded", &replay, &mut p);
                        if out.len() != 20 {
                            p.violation("C03/VER/decoded/fixed-size-kind-has-other-size".to_string(), format!("VER {}: version text {:?} decodes, and re-encodes to {} bytes", mode_name(compressed), String::from_utf8_lossy(&v), out.len()), replay);
                        }
                    },
                    Enc::Err(_) => p.count("decoded_refused_with_error", 1),
                    Enc::Panic(pn) => p.violation(
                        format!("C03/VER/decoded/encoder-aborts/{}", panic_site(&pn)),
                        format!("VER {}: a packet obtained by decoding version text {:?} makes the encoder panic: {pn}", mode_name(compressed), String::from_utf8_lossy(&v)),
                        replay,
                    ),
                }
            }
        }
        ctx.merge(p);
    }
    // ---- typed fields wider than their wire slot: a `char` that goes into one byte (ISI prefix, SCH key). Whatever the
    //      character, an emitted frame is well formed and of the kind's fixed size - or the packet is refused -----------
    {
        let mut p = Part::new();
        let chars = ['!', '/', '\u{7f}', '\u{80}', 'é', 'ÿ', '€', 'ш', 'λ', 'ş', 'Ā', '！', '日', '😀', char::MAX, '^', '\0'];
        for ch in chars {
            let packets = [
                ("ISI", insim::Packet::Isi(insim::insim::Isi { prefix: ch, iname: "verif".into(), ..Default::default() })),
                ("SCH", insim::Packet::Sch(insim::insim::Sch { charb: ch, ..Default::default() })),
            ];
            for (kind, pk) in packets {
                for compressed in MODES {
                    p.evaluations += 1;
                    p.distinct(&(kind, ch, compressed));
                    let replay = json!({"kind": kind, "mode": mode_name(compressed), "origin": "api", "char": format!("{:?}", ch)});
                    match real_encode(&pk, compressed) {
                        Enc::Ok(f) => {
                            well_formed(c, kind, &f, compressed, None, "api", &replay, &mut p);
                            let want = c.spec.packet(kind).base;
                            if f.len() != want {
                                p.violation(
                                    format!("C03/{kind}/api/fixed-size-kind-has-other-size"),
                                    format!("{kind} {} with the character {:?}: encoder returned {} bytes, the kind is {want} bytes", mode_name(compressed), ch, f.len()),
                                    replay,
                                );
                            }
                        },
                        Enc::Err(_) => p.count("refused_with_error", 1),
                        Enc::Panic(_) => p.count("refused_with_panic", 1),
                    }
                }
            }
        }
        ctx.merge(p);
    }
    // ---- the public size-byte rule itself: Mode::encode_length for every length 0..=1100 ------------------------
    {
        use insim::net::Mode;
        let mut p = Part::new();
        for compressed in MODES {
            let mode = if compressed { Mode::Compressed } else { Mode::Uncompressed };
            let lim = limit(compressed);
            for len in 0usize..=1100 {
                p.evaluations += 1;
                p.distinct(&("encode_length", compressed, len));
                let legal = len >= 4 && len <= lim && len % 4 == 0;
                let want = if compressed { len / 4 } else { len };
                let replay = json!({"mode": mode_name(compressed), "len": len});
                match guarded(|| mode.encode_length(len)) {
                    Ok(Ok(b)) => {
                        // a size byte may only ever be issued for a length it describes, within the mode's limit
                        if len < 4 || len > lim || b as usize != want || (compressed && len % 4 != 0) {
                            p.violation(
                                "C03/encode-length/wrong-or-wrapped-size-byte",
                                format!("{} encode_length({len}) = {b}: limit {lim}, the size byte for {len} bytes would be {want}", mode_name(compressed)),
                                replay,
                            );
                        }
                    },
                    Ok(Err(_)) | Err(_) => {
                        if legal {
                            p.violation("C03/encode-length/legal-length-refused", format!("{} encode_length({len}) is refused although {len} is a legal frame length", mode_name(compressed)), replay);
                        }
                    },
                }
            }
        }
        ctx.merge(p);
    }
    ctx.assume("a panic counts as a loud refusal only where the reference says the packet is unrepresentable in that mode (size over the limit, count over 255 or the protocol maximum, 4-bit field over 15)");
    (
        "exploration",
        "clause 1: per kind and mode, typed packets from in-domain and hostile assignments (element counts 0..300 incl. beyond protocol maxima, odd/even, texts 0..2x width, oversize sub-fields) plus every element count of the counted kinds; clause 2: packets obtained by decoding reference frames with 0..6 random byte mutations (reserved bits, missing terminators, any TextStart, odd NLP counts) re-encoded in both modes; distinct = distinct (mode, frame)".into(),
        false,
    )
}
