//! C04 — Decoding untrusted bytes is total, bounded and always progresses.

use bytes::BytesMut;
use rayon::prelude::*;
use serde_json::json;

use crate::{
    corpus::{codec, mode_name, Corpus, MODES},
    ctx::{guarded, hex, panic_site, short_err, Ctx, Part},
    hang,
    refspec::{limit, GenOpts, TextMode},
    rng::Rng,
};

#[derive(Debug, PartialEq, Clone)]
enum Outcome {
    NeedMore,
    Packet(String),
    Error(String),
}

fn decode_once(buf: &[u8], compressed: bool) -> Result<(Outcome, Vec<u8>), String> {
    let c = codec(compressed);
    let mut b = BytesMut::from(buf);
    let mut case = Vec::with_capacity(buf.len() + 1);
    case.push(compressed as u8);
    case.extend_from_slice(buf);
    hang::enter(&case);
    let r = guarded(|| {
        let r = c.decode(&mut b);
        (r, b.to_vec())
    });
    hang::leave();
    r.map(|(r, rest)| {
        let o = match r {
            Ok(None) => Outcome::NeedMore,
            Ok(Some(p)) => Outcome::Packet(format!("{:?}", p)),
            Err(e) => Outcome::Error(short_err(&e.to_string())),
        };
        (o, rest)
    })
}

/// The reference framer: announced length of the frame at the head of the buffer.
fn announced(buf: &[u8], compressed: bool) -> Option<usize> {
    buf.first().map(|b| if compressed { *b as usize * 4 } else { *b as usize })
}

pub fn check_buffer(buf: &[u8], compressed: bool, origin: &str, p: &mut Part, r: &mut Rng) {
    p.evaluations += 1;
    let l = buf.len();
    let replay = json!({"mode": mode_name(compressed), "origin": origin, "buffer": hex(&buf[..l.min(1200)]), "buffer_len": l});
    let (out, rest) = match decode_once(buf, compressed) {
        Ok(x) => x,
        Err(pn) => {
            p.violation(
                format!("C04/panic/{}", panic_site(&pn)),
                format!("{} decode of a {l}-byte buffer starting {} panicked: {pn}", mode_name(compressed), hex(&buf[..l.min(12)])),
                replay,
            );
            return;
        },
    };
    let removed = l - rest.len().min(l);
    let tail_ok = rest.len() <= l && rest[..] == buf[l - rest.len()..];
    if !tail_ok {
        p.violation("C04/tail-corrupted", format!("{}: the bytes left in the buffer are not a suffix of the input", mode_name(compressed)), replay.clone());
        return;
    }
    let n = announced(buf, compressed);
    let lim = limit(compressed);
    if l < 4 {
        if out != Outcome::NeedMore || removed != 0 {
            p.violation("C04/short-buffer-not-needmore", format!("{}: {l}-byte buffer gave {:?} and lost {removed} bytes", mode_name(compressed), out), replay);
        }
        return;
    }
    let n = n.unwrap();
    let impossible = n < 4 || n > lim;
    if impossible {
        match &out {
            Outcome::Error(_) if removed == 0 || removed >= 4 => {},
            _ => p.violation(
                "C04/impossible-length-not-refused",
                format!("{}: announced length {n} is impossible, yet the decoder returned {:?} and removed {removed} bytes", mode_name(compressed), out),
                replay,
            ),
        }
        return;
    }
    let odd = !compressed && n % 4 != 0;
    if l < n {
        let ok = (out == Outcome::NeedMore && removed == 0) || (odd && matches!(out, Outcome::Error(_)) && (removed == 0 || removed >= 4));
        if !ok {
            p.violation("C04/incomplete-frame-not-needmore", format!("{}: frame of {n} announced, {l} buffered: {:?}, removed {removed}", mode_name(compressed), out), replay);
        }
        return;
    }
    // complete frame available
    match &out {
        Outcome::NeedMore => p.violation("C04/complete-frame-needmore", format!("{}: complete {n}-byte frame buffered but the decoder asks for more", mode_name(compressed)), replay.clone()),
        Outcome::Packet(_) | Outcome::Error(_) => {
            let framing_refusal = odd && matches!(out, Outcome::Error(_)) && removed == 0;
            if removed != n && !framing_refusal {
                p.violation(
                    "C04/wrong-amount-consumed",
                    format!("{}: frame of {n} bytes announced, {removed} bytes removed ({:?})", mode_name(compressed), clip(&format!("{:?}", out))),
                    replay.clone(),
                );
            }
        },
    }
    // independence from what follows the frame
    if l >= n {
        let mut other = buf[..n].to_vec();
        let extra = r.usize_below(40);
        other.extend(r.bytes(extra));
        if let Ok((out2, rest2)) = decode_once(&other, compressed) {
            let removed2 = other.len() - rest2.len().min(other.len());
            if out2 != out || (removed2 != removed) {
                p.violation(
                    "C04/depends-on-trailing-bytes",
                    format!("{}: same {n}-byte frame, different trailing bytes: {} vs {}", mode_name(compressed), clip(&format!("{:?}", out)), clip(&format!("{:?}", out2))),
                    json!({"mode": mode_name(compressed), "a": hex(buf), "b": hex(&other)}),
                );
            }
        }
    }
    if let Outcome::Packet(_) = out {
        p.count("accepted_frames", 1);
    }
}

fn clip(s: &str) -> String {
    s.chars().take(200).collect()
}

pub fn run(ctx: &mut Ctx) -> (&'static str, String, bool) {
    let c = match Corpus::load() {
        Ok(c) => c,
        Err(e) => {
            ctx.inconclusive(format!("cannot load the reference specification: {e}"));
            return ("exploration", "spec missing".into(), false);
        },
    };
    let c = &c;
    let base_rng = ctx.rng.fork(4);
    let thorough = ctx.tier == crate::ctx::Tier::Thorough;
    let miri = ctx.stage.as_deref() == Some("miri");
    let (shard, nshards) = ctx.shard;
    if miri {
        // Miri costs ~4 orders of magnitude: a structured slice of the same workload, sharded by kind
        let mut p = Part::new();
        let mut r = base_rng.fork(77 + shard);
        for size in [0u8, 1, 3, 4, 5, 63, 64, 255] {
            for ty in [0u8, 1, 3, 4, 37, 64, 255] {
                if ((size as u64) * 7 + ty as u64) % nshards != shard {
                    continue;
                }
                for compressed in MODES {
                    let n = if compressed { size as usize * 4 } else { size as usize };
                    for l in [4usize, n.saturating_sub(1), n, n + 1] {
                        let mut buf = r.bytes(l);
                        if l > 1 {
                            buf[0] = size;
                            buf[1] = ty;
                        }
                        check_buffer(&buf, compressed, "header-matrix", &mut p, &mut r);
                    }
                }
            }
        }
        for (ki, lay) in c.kinds().iter().enumerate() {
            if (ki as u64) % nshards != shard {
                continue;
            }
            let compressed = ki % 2 == 0;
            // ASCII text from the generator (encoding mixed text costs hours under Miri: linear table searches in every
            // candidate codepage); multi-codepage bytes are written over the frame below instead - decoding them is cheap
            let o = GenOpts { text: TextMode::Ascii, max_list: Some(2), boundary: 4, hostile: false };
            let Some((_, frame)) = c.ref_frame(&mut r, lay, &o, compressed) else { continue };
            p.distinct(&(compressed, &frame));
            check_buffer(&frame, compressed, &format!("valid-{}", lay.name), &mut p, &mut r);
            for snippet in [&b"^J\x83\x5e^L\xe9"[..], &b"^E\xec^^^H\xa4\x5e"[..], &b"\xff\xfe^K\xb0\xa1^8"[..]] {
                if frame.len() >= 8 + snippet.len() {
                    let at = 4 + r.usize_below(frame.len() - 4 - snippet.len());
                    let mut m = frame.clone();
                    m[at..at + snippet.len()].copy_from_slice(snippet);
                    check_buffer(&m, compressed, &format!("text-snippet-{}", lay.name), &mut p, &mut r);
                }
            }
            for pos in (0..frame.len()).step_by(1 + frame.len() / 10) {
                for v in [0u8, 0x7f, 0xff] {
                    let mut m = frame.clone();
                    m[pos] = v;
                    check_buffer(&m, compressed, &format!("byte-mutation-{}", lay.name), &mut p, &mut r);
                }
            }
            check_buffer(&frame[..frame.len() - 1], compressed, "truncated", &mut p, &mut r);
        }
        p.distinct(&("miri-shard", shard));
        ctx.merge(p);
        return ("exploration", "Miri slice: header matrix corners and one reference frame per kind with byte mutations and truncation, sharded by kind".into(), false);
    }

    // ---- (a) every (size, type) header pair ---------------------------------------------------
    let parts: Vec<Part> = (0u32..256)
        .into_par_iter()
        .map(|size| {
            let mut p = Part::new();
            let mut r = base_rng.fork(size as u64);
            for ty in 0u32..256 {
                for compressed in MODES {
                    let n = if compressed { size as usize * 4 } else { size as usize };
                    let mut lens: Vec<usize> = vec![4, 5, 8];
                    if n >= 1 {
                        lens.extend([n.saturating_sub(1), n, n + 1]);
                    }
                    if thorough || ty % 16 == size % 16 {
                        lens.extend([0, 1, 2, 3, 6, 7, 1020, 2048]);
                    }
                    lens.sort();
                    lens.dedup();
                    for l in lens {
                        let mut buf = vec![0u8; l];
                        let body = r.bytes(l);
                        buf.copy_from_slice(&body);
                        if l > 0 {
                            buf[0] = size as u8;
                        }
                        if l > 1 {
                            buf[1] = ty as u8;
                        }
                        check_buffer(&buf, compressed, "header-matrix", &mut p, &mut r);
                    }
                }
            }
            p.distinct_extra += p.evaluations;
            p
        })
        .collect();
    for p in parts {
        ctx.merge(p);
    }

    // ---- (b,c) valid frames of every kind: every byte position x every value, truncations, extensions, bit flips, multi-byte text snippets at every offset
    let frames_per_kind = ctx.tier.pick(2usize, 6usize);
    let parts: Vec<Part> = c
        .kinds()
        .par_iter()
        .enumerate()
        .map(|(ki, lay)| {
            let mut p = Part::new();
            let mut r = base_rng.fork(1000 + ki as u64);
            for fi in 0..frames_per_kind {
                for compressed in MODES {
                    let o = GenOpts { text: if fi % 2 == 0 { TextMode::Ascii } else { TextMode::Mixed }, max_list: Some(if fi == 0 { 2 } else { 6 }), boundary: 4, hostile: false };
                    // half from the reference codec, half from the real encoder
                    let frame = if fi % 2 == 0 { c.ref_frame(&mut r, lay, &o, compressed).map(|x| x.1) } else { c.frame(&mut r, lay, &o, compressed).map(|x| x.1) };
                    let Some(frame) = frame else { continue };
                    if frame.len() > limit(compressed) {
                        continue;
                    }
                    p.distinct(&(compressed, &frame));
                    check_buffer(&frame, compressed, &format!("valid-{}", lay.name), &mut p, &mut r);
                    let cap = if thorough { frame.len() } else { frame.len().min(96) };
                    for pos in 0..cap {
                        for v in 0u16..256 {
                            if frame[pos] == v as u8 {
                                continue;
                            }
                            let mut m = frame.clone();
                            m[pos] = v as u8;
                            // keep some trailing bytes so that a grown size byte still finds data
                            if pos == 0 {
                                m.extend(r.bytes(64));
                            }
                            check_buffer(&m, compressed, &format!("byte-mutation-{}", lay.name), &mut p, &mut r);
                            p.distinct_extra += 1;
                        }
                    }
                    for cut in 0..frame.len() {
                        check_buffer(&frame[..cut], compressed, &format!("truncated-{}", lay.name), &mut p, &mut r);
                    }
                    for ext in [1usize, 3, 4, 5, 64] {
                        let mut m = frame.clone();
                        m.extend(r.bytes(ext));
                        check_buffer(&m, compressed, &format!("extended-{}", lay.name), &mut p, &mut r);
                    }
                    for _ in 0..64 {
                        let mut m = frame.clone();
                        for _ in 0..1 + r.usize_below(3) {
                            let pos = r.usize_below(m.len());
                            m[pos] ^= 1 << r.below(8);
                        }
                        check_buffer(&m, compressed, &format!("bitflip-{}", lay.name), &mut p, &mut r);
                    }
                    // repeated elements: one block of the frame copied over another (lists are parsed into sets / maps in
                    // places; two equal entries never come out of the generators, nor out of a single-byte mutation)
                    for bs in [4usize, 6, 8, 28, 40] {
                        let mut k = 4;
                        while k + 2 * bs <= frame.len() && k < 4 + 8 * bs {
                            for from_next in [false, true] {
                                let mut m = frame.clone();
                                let (src, dst) = if from_next { (k + bs, k) } else { (k, k + bs) };
                                let blk = m[src..src + bs].to_vec();
                                m[dst..dst + bs].copy_from_slice(&blk);
                                check_buffer(&m, compressed, &format!("repeated-element-{}", lay.name), &mut p, &mut r);
                                p.distinct_extra += 1;
                            }
                            k += if bs % 4 == 0 { 4 } else { 2 };
                        }
                    }
                    // well-formed multi-byte text where the peer may put text: UTF-8 / double-byte snippets (digits followed
                    // by a multi-byte character, marker + lead byte, ...) written over every offset after the header
                    const SNIPPETS: [&[u8]; 16] = [
                        b"XFG\0",
                        b"FBM\0",
                        b"ABC\0",
                        b"xfg\0",
                        b"\0\0\0\0",
                        b"BL1\0\0\0",
                        "0.7é".as_bytes(),
                        "1日".as_bytes(),
                        "0.6В9".as_bytes(),
                        "²".as_bytes(),
                        "９".as_bytes(),
                        b"^J\x93\xfa",
                        b"^J\x81",
                        b"^^\x5e",
                        b"\xef\xbb\xbf",
                        "😀".as_bytes(),
                    ];
                    let cap2 = if thorough { frame.len() } else { frame.len().min(64) };
                    for pos in 3..cap2 {
                        for sn in SNIPPETS {
                            let mut m = frame.clone();
                            for (k, b) in sn.iter().enumerate() {
                                if pos + k < m.len() {
                                    m[pos + k] = *b;
                                }
                            }
                            check_buffer(&m, compressed, &format!("text-snippet-{}", lay.name), &mut p, &mut r);
                            p.distinct_extra += 1;
                        }
                    }
                }
            }
            p
        })
        .collect();
    for p in parts {
        ctx.merge(p);
    }

    // ---- (d) random buffers -------------------------------------------------------------------
    let n = ctx.tier.pick(400_000u64, 30_000_000u64);
    let parts: Vec<Part> = (0u64..16)
        .into_par_iter()
        .map(|t| {
            let mut p = Part::new();
            let mut r = base_rng.fork(5000 + t);
            for i in 0..n / 16 {
                let compressed = i % 2 == 0;
                let l = match r.below(8) {
                    0 => r.usize_below(12),
                    1 => 1020 + r.usize_below(40),
                    _ => r.usize_below(300),
                };
                let mut buf = r.bytes(l);
                if l > 1 && r.chance(3, 4) {
                    // plausible header: a size that fits and a known type number
                    let ty = *r.pick(&[1u8, 2, 3, 4, 5, 11, 12, 14, 17, 21, 35, 37, 38, 45, 50, 53, 54, 55, 57, 64, 65, 66, 67, 253, 254]);
                    buf[1] = ty;
                    let want = if compressed { (l / 4).min(255) } else { l.min(255) };
                    buf[0] = if r.chance(3, 4) { want as u8 } else { r.below(256) as u8 };
                }
                p.distinct(&(compressed, &buf));
                check_buffer(&buf, compressed, "random", &mut p, &mut r);
            }
            p
        })
        .collect();
    for p in parts {
        ctx.merge(p);
    }
    ctx.sample(json!({"mode": "compressed", "buffer": "00030000", "expectation": "size byte 0 announces an impossible length: framing error, no panic, nothing (or >= 4 bytes) removed"}));
    ctx.sample(json!({"mode": "uncompressed", "buffer": "0840000000090000", "expectation": "IS_CIM with sub-mode 9: packet or decode error after removing exactly 8 bytes"}));
    // ---- IS_MSO: the one packet in which a field (TextStart) is an offset into another (Msg). Every offset, also
    //      beyond the text, against message ends that an offset can tear: markers, lone carets, double-byte pairs -------
    {
        let mut p = Part::new();
        let mut r = base_rng.fork(1111);
        let bodies: Vec<Vec<u8>> = {
            let heads: [&[u8]; 4] = [b"", b"ab", b"Name ^1: ", "^CØìÿ: ".as_bytes()];
            let tails: [&[u8]; 14] = [b"", b"x", b"^", b"^L", b"^E", b"^J", b"^8", b"^^", b"^J\x81\x7e", b"^J\x83\xbf", b"^J\x81", b"^C\xe6", b"\xe9", b"^S\x80^"];
            heads.iter().flat_map(|h| tails.iter().map(move |t| [&h[..], &t[..]].concat())).collect()
        };
        for body in &bodies {
            for compressed in MODES {
                let mut msg = body.clone();
                while (8 + msg.len()) % 4 != 0 {
                    msg.push(0);
                }
                for ts in 0..=(body.len() + 3).min(255) {
                    for usertype in [0u8, 1, 2] {
                        let mut f = vec![0u8, 11, 0, 0, 1, 2, usertype, ts as u8];
                        f.extend_from_slice(&msg);
                        f[0] = if compressed { (f.len() / 4) as u8 } else { f.len() as u8 };
                        check_buffer(&f, compressed, "mso-textstart", &mut p, &mut r);
                        p.distinct_extra += 1;
                    }
                }
            }
        }
        ctx.merge(p);
    }
    // ---- the same hostile bytes arriving over a connection, in fragments: Framed::read must stay total too --------
    {
        use crate::transport::{runtime, Conn, Handle, Impl, RAct, ReadResult};
        let n = ctx.tier.pick(3_000u64, 60_000u64);
        let base = base_rng.fork(4242);
        let parts: Vec<Part> = (0..n)
            .into_par_iter()
            .map(|i| {
                let rt = runtime();
                let _g = rt.enter();
                let mut p = Part::new();
                let mut r = base.fork(i);
                let compressed = i % 2 == 0;
                // a few valid frames, then a hostile tail: impossible size bytes, random bytes, a cut frame
                let mut stream = vec![];
                for _ in 0..r.usize_below(3) {
                    let lay = r.pick(c.kinds());
                    let o = GenOpts { text: TextMode::Ascii, max_list: Some(2), boundary: 4, hostile: false };
                    if let Some((_, f)) = c.ref_frame(&mut r, lay, &o, compressed) {
                        stream.extend(f);
                    }
                }
                match r.below(4) {
                    0 => stream.push(r.below(4) as u8), // a lone size byte 0..3
                    1 => {
                        stream.push(r.below(4) as u8);
                        let k = r.usize_below(6);
                        stream.extend(r.bytes(k));
                    },
                    2 => {
                        let k = 1 + r.usize_below(40);
                        stream.extend(r.bytes(k));
                    },
                    _ => {
                        stream.push(255);
                        let k = r.usize_below(8);
                        stream.extend(r.bytes(k));
                    },
                }
                let seg = [1usize, 1, 2, 3, 0][r.usize_below(5)];
                let plan: Vec<RAct> = if seg == 0 { (0..stream.len()).map(|_| RAct::Bytes(1 + r.usize_below(5))).collect() } else { vec![] };
                for which in [Impl::Blocking, Impl::Tokio] {
                    p.evaluations += 1;
                    p.distinct(&(which.name(), compressed, &stream, seg));
                    let h = Handle::new(stream.clone(), plan.clone(), vec![]);
                    h.with(|x| x.default_read = seg);
                    let outcome = guarded(|| {
                        let mut conn = Conn::new(which, &h, compressed, false);
                        let mut results = vec![];
                        for _ in 0..stream.len() + 8 {
                            let x = conn.read(&h);
                            let end = matches!(x, ReadResult::Disconnected);
                            results.push(x);
                            if end {
                                break;
                            }
                        }
                        results
                    });
                    if let Err(pn) = outcome {
                        p.violation(
                            format!("C04/framed/{}/panic/{}", which.name(), panic_site(&pn)),
                            format!("{} {}: reading the byte stream {} in {}-byte fragments panicked: {pn}", which.name(), mode_name(compressed), hex(&stream[..stream.len().min(64)]), if seg == 0 { "random".to_string() } else { seg.to_string() }),
                            json!({"impl": which.name(), "mode": mode_name(compressed), "stream": hex(&stream), "segment": seg}),
                        );
                    }
                }
                p
            })
            .collect();
        for p in parts {
            ctx.merge(p);
        }
    }
    // ---- the public framing rule itself: Mode::decode_length for every size byte x buffer lengths around it ------
    {
        use bytes::BytesMut;
        use insim::net::Mode;
        let mut p = Part::new();
        for compressed in MODES {
            let mode = if compressed { Mode::Compressed } else { Mode::Uncompressed };
            let lim = limit(compressed);
            for size in 0u16..=255 {
                let n = if compressed { size as usize * 4 } else { size as usize };
                let mut lens: Vec<usize> = (0..=8).collect();
                lens.extend([n.saturating_sub(1), n, n + 1, n + 64, 1100]);
                for blen in lens {
                    let mut buf = vec![0xA5u8; blen];
                    if blen > 0 {
                        buf[0] = size as u8;
                    }
                    let src = BytesMut::from(&buf[..]);
                    p.evaluations += 1;
                    p.distinct(&("decode_length", compressed, size, blen));
                    let got = guarded(|| mode.decode_length(&src).map_err(|e| e.kind()));
                    let replay = json!({"mode": mode_name(compressed), "size_byte": size, "buffer_len": blen});
                    let verdict = match &got {
                        Err(pn) => Some(format!("panicked: {pn}")),
                        Ok(r) => {
                            if blen < 4 {
                                (!matches!(r, Ok(None))).then(|| format!("{:?} for a buffer without a whole header", r))
                            } else if n < 4 || n > lim {
                                (!matches!(r, Err(_))).then(|| format!("{:?} for the impossible announced length {n}", r))
                            } else if !compressed && n % 4 != 0 {
                                // not chosen by the statement: a frame of that length or a framing error
                                (!matches!(r, Err(_) | Ok(None)) && *r != Ok(Some(n))).then(|| format!("{:?}", r))
                            } else if blen < n {
                                (!matches!(r, Ok(None))).then(|| format!("{:?} although only {blen} of {n} bytes are buffered", r))
                            } else {
                                (*r != Ok(Some(n))).then(|| format!("{:?} for a complete frame of {n} bytes", r))
                            }
                        },
                    };
                    if let Some(v) = verdict {
                        p.violation("C04/decode-length", format!("{} decode_length(size byte {size}, {blen} bytes buffered) = {v}", mode_name(compressed)), replay);
                    }
                    if src.len() != blen {
                        p.violation("C04/decode-length/buffer-touched", "decode_length changed the buffer".to_string(), json!({"size_byte": size}));
                    }
                }
            }
        }
        ctx.merge(p);
    }
    ctx.assume("uncompressed announced lengths >= 4 that are not a multiple of 4 may be treated as a frame of that length or refused as a framing error: the statement does not choose");
    (
        "exploration",
        "every (size,type) header pair x buffer lengths around the announced length x both modes; valid frames of every kind (reference-built and encoder-built) with every byte position set to every value, every truncation, extensions, bit flips, repeated elements (blocks of 4-40 bytes copied over their neighbours) and multi-byte text snippets (UTF-8, double-byte, markers) written over every offset; random and plausible-header random buffers; each decoded twice with different trailing bytes; IS_MSO with every TextStart against message ends an offset can tear; hostile streams (impossible size bytes, garbage, cut frames) read through both connection types in 1-5 byte fragments under the panic monitor; distinct = distinct (mode, buffer)".into(),
        false,
    )
}

pub fn hang_case(bytes: &[u8]) {
    if bytes.is_empty() {
        return;
    }
    let _ = decode_once(&bytes[1..], bytes[0] != 0);
}
