//! C16 — Game versions parse totally, print re-parseably and order consistently.

use std::{cmp::Ordering, str::FromStr};

use insim_core::game_version::GameVersion;
use rayon::prelude::*;
use serde_json::json;

use crate::{
    ctx::{guarded, hex, Ctx, Part},
    hang,
};

const ALPHABET: [char; 12] = ['0', '1', '9', '.', 'A', 'a', 'z', 'Z', '-', ' ', 'é', '٣'];

fn flip_case(s: &str) -> String {
    s.chars()
        .map(|c| {
            if c.is_ascii_uppercase() {
                c.to_ascii_lowercase()
            } else if c.is_ascii_lowercase() {
                c.to_ascii_uppercase()
            } else {
                c
            }
        })
        .collect()
}

/// Independent statement of the ordering key: (number, letter, revision-or-0).
fn key_cmp(a: &GameVersion, b: &GameVersion) -> Option<Ordering> {
    match a.major.partial_cmp(&b.major)? {
        Ordering::Equal => {},
        o => return Some(o),
    }
    match a.minor.cmp(&b.minor) {
        Ordering::Equal => {},
        o => return Some(o),
    }
    Some(a.patch.unwrap_or(0).cmp(&b.patch.unwrap_or(0)))
}

pub fn check_string(s: &str, p: &mut Part, pool: Option<&mut Vec<GameVersion>>) {
    p.evaluations += 1;
    hang::enter(s.as_bytes());
    let r = guarded(|| GameVersion::from_str(s));
    hang::leave();
    let r = match r {
        Ok(r) => r,
        Err(pn) => {
            p.violation("C16/parse-panic", format!("parsing {:?} panicked: {pn}", s), json!({"input": s, "input_hex": hex(s.as_bytes())}));
            return;
        },
    };
    let Ok(v) = r else {
        // the case-flipped string must then fail too
        let f = flip_case(s);
        if f != s {
            if let Ok(Ok(_)) = guarded(|| GameVersion::from_str(&f)) {
                p.violation("C16/case-sensitivity-accept", format!("{:?} is rejected but {:?} is accepted", s, f), json!({"input": s}));
            }
        }
        return;
    };
    p.distinct(s);
    // printed form parses back to an equal version (finite numbers only)
    if v.major.is_finite() {
        let printed = match guarded(|| v.to_string()) {
            Ok(x) => x,
            Err(pn) => {
                p.violation("C16/display-panic", format!("printing the version parsed from {:?} panicked: {pn}", s), json!({"input": s}));
                return;
            },
        };
        hang::enter(printed.as_bytes());
        let back = guarded(|| GameVersion::from_str(&printed));
        hang::leave();
        match back {
            Ok(Ok(b)) if b == v && b.cmp(&v) == Ordering::Equal => {},
            other => p.violation(
                "C16/print-not-reparseable",
                format!("{:?} parses to {:?}, printed as {:?}, which parses to {:?}", s, v, printed, other),
                json!({"input": s, "printed": printed}),
            ),
        }
    }
    // case-insensitive in the letter
    let f = flip_case(s);
    if f != s {
        match guarded(|| GameVersion::from_str(&f)) {
            Ok(Ok(b)) if b == v => {},
            other => p.violation(
                "C16/case-sensitivity",
                format!("{:?} parses to {:?} but {:?} parses to {:?}", s, v, f, other),
                json!({"input": s, "flipped": f}),
            ),
        }
    }
    // ... also where the letter is not ASCII (if such a letter is accepted at all, both cases are, and equal)
    if !s.is_ascii() {
        let uni: String = s.chars().flat_map(|c| if c.is_lowercase() { c.to_uppercase().collect::<Vec<_>>() } else { c.to_lowercase().collect::<Vec<_>>() }).collect();
        if uni != s && uni != f {
            match guarded(|| GameVersion::from_str(&uni)) {
                Ok(Ok(b)) if b == v && b.cmp(&v) == Ordering::Equal => {},
                other => p.violation(
                    "C16/case-sensitivity",
                    format!("{:?} parses to {:?} but its other-case spelling {:?} parses to {:?}", s, v, uni, other),
                    json!({"input": s, "flipped": uni}),
                ),
            }
        }
    }
    // eq/cmp consistency with itself
    if v != v.clone() || v.cmp(&v.clone()) != Ordering::Equal {
        p.violation("C16/not-reflexive", format!("{:?} (from {:?}) is not equal to itself", v, s), json!({"input": s}));
    }
    if let Some(pool) = pool {
        pool.push(v);
    }
}

fn nth_string(mut idx: u64, len: usize) -> String {
    let mut s = String::with_capacity(len * 2);
    for _ in 0..len {
        s.push(ALPHABET[(idx % 12) as usize]);
        idx /= 12;
    }
    s
}

pub fn run(ctx: &mut Ctx) -> (&'static str, String, bool) {
    let maxlen = ctx.tier.pick(5usize, 7usize);

    // ---- exhaustive short strings -----------------------------------------------------------
    let mut total = 0u64;
    for len in 0..=maxlen {
        let n = 12u64.pow(len as u32);
        total += n;
        let chunk = 20_000u64;
        let parts: Vec<Part> = (0..n.div_ceil(chunk))
            .into_par_iter()
            .map(|c| {
                let mut p = Part::new();
                for i in c * chunk..((c + 1) * chunk).min(n) {
                    check_string(&nth_string(i, len), &mut p, None);
                }
                p
            })
            .collect();
        for p in parts {
            ctx.merge(p);
        }
    }
    ctx.extra("exhaustive_strings", json!(total));
    ctx.extra("exhaustive_max_len", json!(maxlen));

    // ---- every string of 7 and 8 characters over digits, '.', and one letter: the longest strings the 8-byte wire
    //      field can hold, whose printed form (leading zero, default letter, rounded number) may be longer than they are ----
    {
        const A5: [char; 5] = ['0', '1', '9', '.', 'F'];
        for len in [7usize, 8] {
            let n = 5u64.pow(len as u32);
            let parts: Vec<Part> = (0..n.div_ceil(20_000))
                .into_par_iter()
                .map(|ch| {
                    let mut p = Part::new();
                    for i in ch * 20_000..((ch + 1) * 20_000).min(n) {
                        let mut idx = i;
                        let mut s = String::with_capacity(len);
                        for _ in 0..len {
                            s.push(A5[(idx % 5) as usize]);
                            idx /= 5;
                        }
                        check_string(&s, &mut p, None);
                    }
                    p
                })
                .collect();
            for p in parts {
                ctx.merge(p);
            }
        }
    }
    // ---- all LFS-shaped 8-byte wire forms d.d[d]L[d[d]] through the VER packet ---------------
    {
        use bytes::BytesMut;
        use insim::net::{Codec, Mode};
        let codec = Codec::new(Mode::Compressed);
        let mut p = Part::new();
        let letters: Vec<u8> = (b'A'..=b'Z').chain(b'a'..=b'z').collect();
        let step = ctx.tier.pick(7usize, 1usize); // quick: every 7th letter offset rotates through all letters over the digits
        let mut k = 0usize;
        for d0 in b'0'..=b'9' {
            for d1 in b'0'..=b'9' {
                for d2 in std::iter::once(0u8).chain(b'0'..=b'9') {
                    for r1 in std::iter::once(0u8).chain(b'0'..=b'9') {
                        for r2 in std::iter::once(0u8).chain(b'0'..=b'9') {
                            if r1 == 0 && r2 != 0 {
                                continue;
                            }
                            let mut li = k % step;
                            k += 1;
                            while li < letters.len() {
                                let l = letters[li];
                                li += step;
                                let mut w = vec![d0, b'.', d1];
                                if d2 != 0 {
                                    w.push(d2);
                                }
                                w.push(l);
                                if r1 != 0 {
                                    w.push(r1);
                                }
                                if r2 != 0 {
                                    w.push(r2);
                                }
                                if w.len() > 8 {
                                    continue;
                                }
                                let text = String::from_utf8(w.clone()).unwrap();
                                w.resize(8, 0);
                                // VER frame: size 5 (20/4), type 2, reqi, zero, version[8], product[6], insimver, spare
                                let mut f = vec![5u8, 2, 1, 0];
                                f.extend_from_slice(&w);
                                f.extend_from_slice(b"S3\0\0\0\0");
                                f.extend_from_slice(&[9, 0]);
                                let mut buf = BytesMut::from(&f[..]);
                                p.evaluations += 1;
                                let r = guarded(|| codec.decode(&mut buf));
                                match r {
                                    Ok(Ok(Some(insim::Packet::Ver(ver)))) => {
                                        p.distinct(&w);
                                        let direct = GameVersion::from_str(&text);
                                        if direct.as_ref().ok() != Some(&ver.version) {
                                            p.violation(
                                                "C16/ver-field-differs-from-parse",
                                                format!("VER version field {:?} decodes to {:?} but parses directly to {:?}", text, ver.version, direct),
                                                json!({"frame": hex(&f)}),
                                            );
                                        }
                                        // every 8-byte wire value has a finite number: printed form must re-parse
                                        let printed = ver.version.to_string();
                                        match GameVersion::from_str(&printed) {
                                            Ok(b) if b == ver.version => {},
                                            other => p.violation(
                                                "C16/print-not-reparseable",
                                                format!("wire version {:?} prints as {:?} which parses to {:?}", text, printed, other),
                                                json!({"frame": hex(&f)}),
                                            ),
                                        }
                                    },
                                    other => p.violation(
                                        "C16/ver-wire-form-rejected",
                                        format!("VER frame with LFS-shaped version {:?} does not decode: {:?}", text, other.map(|x| x.map(|y| y.map(|z| format!("{:?}", z))))),
                                        json!({"frame": hex(&f)}),
                                    ),
                                }
                            }
                        }
                    }
                }
            }
        }
        ctx.extra("ver_wire_forms", json!(p.evaluations));
        ctx.merge(p);
    }

    // ---- random longer ASCII / Unicode strings ----------------------------------------------
    let n = ctx.tier.pick(600_000u64, 30_000_000u64);
    let base = ctx.rng.fork(16);
    let results: Vec<(Part, Vec<GameVersion>)> = (0u64..16)
        .into_par_iter()
        .map(|t| {
            let mut r = base.fork(t);
            let mut p = Part::new();
            let mut pool = vec![];
            let pieces: [&str; 24] = [
                "0", "1", "7", "9", ".", ".", "A", "b", "Z", "k", "-", " ", "é", "٣", "٠", "½", "①", "e", "E", "\0", "99999999999", "inf", "NaN", "0.7",
            ];
            for _ in 0..n / 16 {
                let maxl = if r.chance(1, 8) { 64 } else { 9 };
                let len = 1 + r.usize_below(maxl);
                let mut s = String::new();
                for _ in 0..len {
                    if r.chance(1, 20) {
                        if let Some(c) = char::from_u32(r.below(0x11_0000) as u32) {
                            s.push(c);
                        }
                    } else {
                        s.push_str(*r.pick(&pieces[..]));
                    }
                }
                let keep = pool.len() < 40;
                check_string(&s, &mut p, if keep { Some(&mut pool) } else { None });
            }
            (p, pool)
        })
        .collect();
    let mut pool: Vec<GameVersion> = vec![];
    for (p, v) in results {
        ctx.merge(p);
        pool.extend(v);
    }

    // ---- order axioms on a pool --------------------------------------------------------------
    let mut seeds: Vec<String> = vec![];
    for num in ["0", "0.0", "00.7", "0.7", "0.70", "0.6", "0.04", "1", "1.", ".5", "10", "0.07", "99999999999999999999999999999999999999999"] {
        for l in ["A", "a", "F", "f", "Z", "z", "K"] {
            for r in ["", "0", "1", "2", "10", "01", "64"] {
                seeds.push(format!("{num}{l}{r}"));
            }
        }
    }
    for s in &seeds {
        let mut p = Part::new();
        check_string(s, &mut p, Some(&mut pool));
        ctx.merge(p);
    }
    let limit = ctx.tier.pick(160usize, 300usize);
    // deterministic thinning
    if pool.len() > limit {
        let stride = pool.len() as f64 / limit as f64;
        pool = (0..limit).map(|i| pool[(i as f64 * stride) as usize].clone()).collect();
    }
    // numbers that are adjacent f32 values (or a few ulps apart): equality must not be looser than the order
    {
        let mut near: Vec<GameVersion> = vec![];
        for base in [0.7f32, 0.6, 0.04, 1.0, 0.5, 1e-7, 0.0, 16.0, 0.1] {
            for k in [0i32, 1, 2, -1, 3] {
                let x = f32::from_bits((base.to_bits() as i64 + k as i64).max(0) as u32);
                for tail in ["F", "F2"] {
                    let txt = format!("{}{tail}", x);
                    let mut p = Part::new();
                    check_string(&txt, &mut p, Some(&mut near));
                    ctx.merge(p);
                }
            }
        }
        for txt in ["0A", ".0000001A", ".0000002A", "0.7F", "0.70000005F", "0.69999996F"] {
            let mut p = Part::new();
            check_string(txt, &mut p, Some(&mut near));
            ctx.merge(p);
        }
        // revisions next to every width a packed or narrowed representation might give them
        for rev in ["254", "255", "256", "65535", "65536", "16777214", "16777215", "16777216", "16777217", "2147483647", "2147483648", "4294967295", "4294967296", "4294967297", "9007199254740992", "9007199254740993", "9223372036854775807", "9223372036854775808", "18446744073709551614", "18446744073709551615"] {
            for head in ["0.7F", "0.7G", "0.6F"] {
                let mut p = Part::new();
                check_string(&format!("{head}{rev}"), &mut p, Some(&mut near));
                ctx.merge(p);
            }
        }
        ctx.extra("near_equal_numbers_in_pool", json!(near.len()));
        pool.extend(near);
    }
    ctx.extra("order_pool", json!(pool.len()));
    let pool_ref = &pool;
    let n = pool.len();
    let parts: Vec<Part> = (0..n)
        .into_par_iter()
        .map(|i| {
            let mut p = Part::new();
            let a = &pool_ref[i];
            for j in 0..n {
                let b = &pool_ref[j];
                p.evaluations += 1;
                let ab = a.cmp(b);
                let ba = b.cmp(a);
                let show = |x: &GameVersion| format!("{:?}", x);
                if (a == b) != (ab == Ordering::Equal) {
                    p.violation("C16/eq-cmp-disagree", format!("{:?} vs {:?}: == is {} but cmp is {:?}", a, b, a == b, ab), json!({"a": show(a), "b": show(b)}));
                }
                if ab != ba.reverse() {
                    p.violation("C16/cmp-not-antisymmetric", format!("cmp({:?},{:?})={:?} but reverse gives {:?}", a, b, ab, ba), json!({"a": show(a), "b": show(b)}));
                }
                if a.partial_cmp(b) != Some(ab) {
                    p.violation("C16/partial-cmp-differs", format!("partial_cmp and cmp differ for {:?} {:?}", a, b), json!({"a": show(a), "b": show(b)}));
                }
                if let Some(k) = key_cmp(a, b) {
                    if k != ab {
                        p.violation("C16/order-key", format!("cmp({:?},{:?})={:?} but (number, letter, revision-or-0) gives {:?}", a, b, ab, k), json!({"a": show(a), "b": show(b)}));
                    }
                }
                // transitivity over all triples
                for c in pool_ref.iter() {
                    p.evaluations += 1;
                    let bc = b.cmp(c);
                    let ac = a.cmp(c);
                    let ok = match (ab, bc) {
                        (Ordering::Less, Ordering::Less) | (Ordering::Less, Ordering::Equal) | (Ordering::Equal, Ordering::Less) => ac == Ordering::Less,
                        (Ordering::Greater, Ordering::Greater) | (Ordering::Greater, Ordering::Equal) | (Ordering::Equal, Ordering::Greater) => ac == Ordering::Greater,
                        (Ordering::Equal, Ordering::Equal) => ac == Ordering::Equal,
                        _ => true,
                    };
                    if !ok {
                        p.violation(
                            "C16/not-transitive",
                            format!("{:?} {:?} {:?}; {:?} {:?} {:?}; but a vs c = {:?}", a, ab, b, b, bc, c, ac),
                            json!({"a": show(a), "b": show(b), "c": show(c)}),
                        );
                    }
                }
            }
            p
        })
        .collect();
    for p in parts {
        ctx.merge(p);
    }
    for s in ["0.7F", "0.04k", "0.7f12", "1.A0", "0.7", "7F", "0.7F-", "٣A"] {
        ctx.sample(json!({"input": s, "parsed": format!("{:?}", guarded(|| GameVersion::from_str(s)))}));
    }
    ctx.assume("non-finite numbers (only reachable from absurdly long digit strings) are exempt from the print/re-parse clause, as the property states");
    (
        "exploration",
        format!(
            "all strings of length <= {maxlen} over the 12-character class alphabet {:?}; all LFS-shaped 8-byte VER wire forms (quick: letters strided); random ASCII/Unicode strings <= 64 chars; order axioms on all pairs and triples of a pool of parsed versions. distinct = distinct input strings that parse successfully",
            ALPHABET
        ),
        true,
    )
}

/// Re-execution of one suspected hanging case in a fresh process.
pub fn hang_case(bytes: &[u8]) {
    let s = String::from_utf8_lossy(bytes).to_string();
    let _ = guarded(|| GameVersion::from_str(&s));
}
