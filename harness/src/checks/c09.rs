//! C09 — InSim version gate accepts version 9 only, and only when enabled.

use serde_json::json;

use crate::{
    corpus::{mode_name, Corpus, MODES},
    ctx::{hex, Ctx, Part},
    refspec::{limit, GenOpts, TextMode},
    sess::{expected_results, run_read_case, short, ReadCase},
    transport::{runtime, ReadResult},
};

use super::c05::IMPLS;

fn ver_frame(compressed: bool, reqi: u8, insimver: u8) -> Vec<u8> {
    ver_frame_spare(compressed, reqi, insimver, 0)
}

/// `spare` is the unused last byte of IS_VER (LFS sends 0; nothing may depend on it).
fn ver_frame_spare(compressed: bool, reqi: u8, insimver: u8, spare: u8) -> Vec<u8> {
    let mut f = vec![if compressed { 5 } else { 20 }, 2, reqi, 0];
    f.extend_from_slice(b"0.7F\0\0\0\0");
    f.extend_from_slice(b"S3\0\0\0\0");
    f.push(insimver);
    f.push(spare);
    f
}

pub fn run(ctx: &mut Ctx) -> (&'static str, String, bool) {
    let c = match Corpus::load() {
        Ok(c) => c,
        Err(e) => {
            ctx.inconclusive(format!("cannot load the reference specification: {e}"));
            return ("exploration", "spec missing".into(), false);
        },
    };
    let rt = runtime();
    let _g = rt.enter();
    let mut p = Part::new();
    let mut r = ctx.rng.fork(9);
    // ---- all 256 version values x {on, off} x impl x position x mode ------------------------------
    for v in 0u16..=255 {
        let v = v as u8;
        for compressed in MODES {
            let ping = vec![if compressed { 1 } else { 4 }, 3, 5, 3];
            let sta = {
                let lay = c.spec.packet("STA");
                let o = GenOpts { text: TextMode::Ascii, max_list: None, boundary: 0, hostile: false };
                c.ref_frame(&mut r, lay, &o, compressed).map(|x| x.1).unwrap_or_else(|| ping.clone())
            };
            for (pos, spare) in [(0usize, 0u8), (1, 0), (2, 0), (1, 1), (0, 0xff), (2, 9)] {
                let mut frames = vec![ping.clone(), sta.clone()];
                frames.insert(pos, ver_frame_spare(compressed, 1, v, spare));
                let stream: Vec<u8> = frames.concat();
                for verify in [true, false] {
                    for which in IMPLS {
                        for seg in [0usize, 1, 7] {
                            p.evaluations += 1;
                            p.distinct(&(v, compressed, pos, spare, verify, which.name(), seg));
                            let case = ReadCase { compressed, stream: stream.clone(), read_plan: vec![], default_read: seg, write_plan: vec![], verify_version: verify, flush: 0, label: format!("ver{v}-pos{pos}-spare{spare}-verify{verify}-seg{seg}") };
                            let o = run_read_case(which, &case);
                            let (mut expect, _) = expected_results(&stream, compressed);
                            if verify && v != 9 {
                                expect[pos] = ReadResult::IncompatibleVersion(v);
                            } else if !matches!(&expect[pos], ReadResult::Packet(d) if d.contains(&format!("insimver: {v},")) || d.contains(&format!("insimver: {v} "))) {
                                // the delivered packet must report the version the frame carries (the expectation above
                                // comes from the library's own decoder, so it is checked against the frame here)
                                p.violation(
                                    "C09/version-field-misread",
                                    format!("a VER frame carrying InSimVer {v} (spare byte {spare}) decodes to {}", short(&expect[pos])),
                                    json!({"version": v, "spare": spare, "frame": hex(&ver_frame_spare(compressed, 1, v, spare))}),
                                );
                            }
                            if o.results != expect || o.runaway {
                                let at = o.results.iter().zip(expect.iter()).position(|(a, b)| a != b).unwrap_or(o.results.len().min(expect.len()));
                                let what = if at == pos {
                                    if verify && v != 9 {
                                        "wrong-version-not-rejected"
                                    } else if verify {
                                        "version-9-rejected"
                                    } else {
                                        "rejected-while-disabled"
                                    }
                                } else {
                                    "other-packet-affected"
                                };
                                p.violation(
                                    format!("C09/{}/{what}", which.name()),
                                    format!(
                                        "{} {} verify={verify}: VER with InSimVer {v} at position {pos}: result #{at} is {} expected {}",
                                        which.name(),
                                        mode_name(compressed),
                                        o.results.get(at).map(short).unwrap_or_else(|| "<none>".into()),
                                        expect.get(at).map(short).unwrap_or_else(|| "<none>".into())
                                    ),
                                    json!({"impl": which.name(), "mode": mode_name(compressed), "verify": verify, "version": v, "position": pos, "spare": spare, "stream": hex(&stream)}),
                                );
                            }
                        }
                    }
                }
            }
        }
    }
    // ---- after a handshake (with any InSimVer in our own ISI) the gate still means "9" -----------------
    {
        use crate::transport::{Conn, Handle};
        use insim::insim::Isi;
        for isi_ver in [0u8, 7, 8, 9, 10, 255] {
            for v in 0u16..=255 {
                let v = v as u8;
                for compressed in MODES {
                    for which in IMPLS {
                        for verify in [true, false] {
                            p.evaluations += 1;
                            p.distinct(&("handshake", isi_ver, v, compressed, which.name(), verify));
                            let stream = [&ver_frame(compressed, 1, v)[..], &[if compressed { 1 } else { 4 }, 3, 5, 3][..]].concat();
                            let h = Handle::new(stream.clone(), vec![], vec![]);
                            let mut conn = Conn::new(which, &h, compressed, verify);
                            let isi = Isi { version: isi_ver, ..Default::default() };
                            let hs = match &mut conn {
                                Conn::Blocking(f) => f.handshake(isi).map_err(|e| e.to_string()),
                                Conn::Tokio(f) => {
                                    let mut fut = Box::pin(f.handshake(isi, std::time::Duration::from_secs(5)));
                                    crate::transport::poll_to_end(fut.as_mut(), 10_000).unwrap_or_else(|| Err(insim::Error::Disconnected)).map_err(|e| e.to_string())
                                },
                            };
                            if let Err(e) = hs {
                                p.violation(format!("C09/{}/handshake-failed", which.name()), format!("handshake with InSimVer {isi_ver} failed on an accepting transport: {e}"), json!({"isi_version": isi_ver}));
                                continue;
                            }
                            let r1 = conn.read(&h);
                            let r2 = conn.read(&h);
                            let (mut expect, _) = expected_results(&stream, compressed);
                            if verify && v != 9 {
                                expect[0] = ReadResult::IncompatibleVersion(v);
                            }
                            if vec![r1.clone(), r2.clone()] != expect {
                                p.violation(
                                    format!("C09/{}/gate-depends-on-handshake", which.name()),
                                    format!(
                                        "{} {} verify={verify}: after a handshake whose ISI carried InSimVer {isi_ver}, a VER reporting {v} gives {} / {} (expected {} / {})",
                                        which.name(),
                                        mode_name(compressed),
                                        short(&r1),
                                        short(&r2),
                                        short(&expect[0]),
                                        short(&expect[1])
                                    ),
                                    json!({"impl": which.name(), "mode": mode_name(compressed), "verify": verify, "isi_version": isi_ver, "version": v}),
                                );
                            }
                        }
                    }
                }
            }
        }
    }
    // ---- histories with several version packets: the gate must judge every one of them ----------------
    for v in 0u16..=255 {
        let v = v as u8;
        for compressed in MODES {
            let ping = vec![if compressed { 1 } else { 4 }, 3, 5, 3];
            let ka = vec![if compressed { 1 } else { 4 }, 3, 0, 0];
            let histories: [Vec<Vec<u8>>; 3] = [
                vec![ver_frame(compressed, 1, 9), ping.clone(), ver_frame(compressed, 2, v), ver_frame(compressed, 3, 9)],
                vec![ver_frame(compressed, 1, v), ver_frame(compressed, 2, 9), ka.clone(), ver_frame(compressed, 3, v)],
                vec![ka.clone(), ver_frame(compressed, 1, 9), ver_frame(compressed, 2, 9), ver_frame(compressed, 3, v), ping.clone()],
            ];
            for (hi, frames) in histories.iter().enumerate() {
                let stream: Vec<u8> = frames.concat();
                for verify in [true, false] {
                    for which in IMPLS {
                        p.evaluations += 1;
                        p.distinct(&("multi", v, compressed, hi, verify, which.name()));
                        let case = ReadCase { compressed, stream: stream.clone(), read_plan: vec![], default_read: if hi == 1 { 3 } else { 0 }, write_plan: vec![], verify_version: verify, flush: 0, label: format!("multi-ver{v}-h{hi}-verify{verify}") };
                        let o = run_read_case(which, &case);
                        let (mut expect, _) = expected_results(&stream, compressed);
                        if verify {
                            for (i, f) in frames.iter().enumerate() {
                                if f[1] == 2 && f[18] != 9 {
                                    expect[i] = ReadResult::IncompatibleVersion(f[18]);
                                }
                            }
                        }
                        if o.results != expect || o.runaway {
                            let at = o.results.iter().zip(expect.iter()).position(|(a, b)| a != b).unwrap_or(o.results.len().min(expect.len()));
                            p.violation(
                                format!("C09/{}/later-version-packet-misjudged", which.name()),
                                format!(
                                    "{} {} verify={verify}: history #{hi} with version packets, result #{at} is {} expected {}",
                                    which.name(),
                                    mode_name(compressed),
                                    o.results.get(at).map(short).unwrap_or_else(|| "<none>".into()),
                                    expect.get(at).map(short).unwrap_or_else(|| "<none>".into())
                                ),
                                json!({"impl": which.name(), "mode": mode_name(compressed), "verify": verify, "version": v, "stream": hex(&stream)}),
                            );
                        }
                    }
                }
            }
        }
    }
    p.sample(json!({"stream": hex(&[&[1u8, 3, 5, 3][..], &ver_frame(true, 1, 8)[..]].concat()), "verify": true, "expected": ["Packet(Tiny ping)", "IncompatibleVersion(8)", "Disconnected"]}));
    // ---- every other kind is delivered in both settings ------------------------------------------
    let per_kind = ctx.tier.pick(20usize, 400usize);
    for lay in c.kinds() {
        if lay.name == "VER" {
            continue;
        }
        for compressed in MODES {
            for i in 0..per_kind {
                let o = GenOpts { text: TextMode::Ascii, max_list: Some(3), boundary: 6, hostile: false };
                let Some((_, mut f)) = c.ref_frame(&mut r, lay, &o, compressed) else { continue };
                if f.len() > limit(compressed) {
                    continue;
                }
                // frames whose byte at the VER offset (18) looks like a wrong version; ISI with its own version byte != 9
                if f.len() > 18 && i % 2 == 0 {
                    f[18] = 8;
                }
                if lay.name == "ISI" {
                    f[8] = (i as u8).wrapping_mul(37);
                }
                let stream = [&f[..], &ver_frame(compressed, 0, 9)[..], &f[..]].concat();
                let (expect, _) = expected_results(&stream, compressed);
                for verify in [true, false] {
                    for which in IMPLS {
                        p.evaluations += 1;
                        p.distinct(&(&lay.name, compressed, i, verify, which.name()));
                        let case = ReadCase { compressed, stream: stream.clone(), read_plan: vec![], default_read: 0, write_plan: vec![], verify_version: verify, flush: 0, label: format!("kind-{}-{i}-verify{verify}", lay.name) };
                        let o = run_read_case(which, &case);
                        if o.results != expect {
                            p.violation(
                                format!("C09/{}/non-version-kind-affected/{}", which.name(), lay.name),
                                format!("{} {} verify={verify}: a {} packet is not delivered unchanged by the version gate", which.name(), mode_name(compressed), lay.name),
                                json!({"impl": which.name(), "mode": mode_name(compressed), "verify": verify, "stream": hex(&stream)}),
                            );
                        }
                    }
                }
            }
        }
    }
    // ---- a version packet from a peer whose IS_VER has grown (the situation the gate exists for): 24 / 32 byte frames ---
    for v in [0u8, 8, 9, 10, 255] {
        for extra in [4usize, 12] {
            for compressed in MODES {
                let mut ver = ver_frame(compressed, 1, v);
                ver.extend(std::iter::repeat(0u8).take(extra));
                ver[0] = if compressed { (ver.len() / 4) as u8 } else { ver.len() as u8 };
                let ping = vec![if compressed { 1 } else { 4 }, 3, 5, 3];
                let stream = [&ver[..], &ping[..]].concat();
                for verify in [true, false] {
                    for which in IMPLS {
                        p.evaluations += 1;
                        p.distinct(&("grown-ver", v, extra, compressed, verify, which.name()));
                        let case = ReadCase { compressed, stream: stream.clone(), read_plan: vec![], default_read: 0, write_plan: vec![], verify_version: verify, flush: 0, label: format!("grown-ver{v}-plus{extra}-verify{verify}") };
                        let o = run_read_case(which, &case);
                        let first_ok = match o.results.first() {
                            Some(ReadResult::IncompatibleVersion(x)) => verify && v != 9 && *x == v,
                            Some(ReadResult::Packet(d)) => (!verify || v == 9) && d.starts_with("Ver(") && d.contains(&format!("insimver: {v}")),
                            _ => false,
                        };
                        let second_ok = matches!(o.results.get(1), Some(ReadResult::Packet(d)) if d.starts_with("Tiny("));
                        if !first_ok || !second_ok {
                            p.violation(
                                format!("C09/{}/grown-version-packet", which.name()),
                                format!("{} {} verify={verify}: a {}-byte IS_VER reporting InSim version {v} followed by a ping gives {:?}", which.name(), mode_name(compressed), ver.len(), o.results.iter().map(short).collect::<Vec<_>>()),
                                json!({"impl": which.name(), "mode": mode_name(compressed), "verify": verify, "version": v, "stream": hex(&stream)}),
                            );
                        }
                    }
                }
            }
        }
    }
    // ---- the public comparison itself: Packet::maybe_verify_version on every version and every other kind -------
    {
        use crate::corpus::{real_decode, Dec};
        for v in 0u16..=255 {
            let v = v as u8;
            let Dec::Packet(pk, _) = real_decode(&ver_frame(true, 3, v), true) else { continue };
            p.evaluations += 1;
            p.distinct(&("maybe_verify_version", v));
            let got = crate::ctx::guarded(|| pk.maybe_verify_version().map_err(|e| format!("{:?}", e)));
            let ok = match &got {
                Ok(Ok(true)) => v == 9,
                Ok(Err(e)) => v != 9 && e.contains(&format!("IncompatibleVersion({v})")),
                _ => false,
            };
            if !ok {
                p.violation("C09/maybe-verify-version", format!("maybe_verify_version() on a VER reporting InSim version {v} returns {:?}", got), json!({"version": v}));
            }
        }
        for lay in c.kinds() {
            if lay.name == "VER" {
                continue;
            }
            let o = GenOpts { text: TextMode::Ascii, max_list: Some(2), boundary: 6, hostile: false };
            let Some((_, f)) = c.ref_frame(&mut r, lay, &o, true) else { continue };
            let Dec::Packet(pk, _) = real_decode(&f, true) else { continue };
            p.evaluations += 1;
            p.distinct(&("maybe_verify_version", &lay.name));
            let got = crate::ctx::guarded(|| pk.maybe_verify_version().map_err(|e| format!("{:?}", e)));
            if !matches!(got, Ok(Ok(false))) {
                p.violation(format!("C09/maybe-verify-version/non-version-kind/{}", lay.name), format!("maybe_verify_version() on a {} packet returns {:?}", lay.name, got), json!({"kind": lay.name}));
            }
        }
    }
    // ---- the flag as the builder passes it on: connections made by Builder over loopback sockets -------------
    if ctx.stage.as_deref() != Some("miri") {
        let mut errs = vec![];
        for asynchronous in [false, true] {
            for udp in [false, true] {
                for verify in [None, Some(true), Some(false)] {
                    for nodelay in [None, Some(true), Some(false)] {
                        for compressed in MODES {
                            if let Err(e) = builder_session(asynchronous, udp, verify, nodelay, compressed, &mut p) {
                                errs.push(e);
                            }
                        }
                    }
                }
            }
        }
        if !errs.is_empty() {
            ctx.inconclusive(format!("{} builder session(s) could not be judged (socket setup / watchdog): {}", errs.len(), errs[0]));
        }
    }
    ctx.merge(p);
    ctx.assume("VER frames are built by hand from the fixed 20-byte layout (InSimVer at offset 18)");
    (
        "exploration",
        "all 256 InSimVer values x {verification on, off} x {blocking, tokio} x position {first, middle, last} (spare byte 0, and 1 / 9 / 255) x 3 read segmentations x both modes (exhaustive); every non-VER kind (incl. ISI with its own version byte != 9) around a valid VER in both settings; connections made through Builder::connect_blocking / connect_async over loopback TCP and UDP for verify_version {unset, on, off} x tcp_nodelay {unset, on, off} x both modes, the peer sending VER 8 / 9 / 10 between other packets; distinct = distinct configurations".into(),
        true,
    )
}


/// A connection made by the builder (which hands its `verify_version` setting to the connection) reads
/// VER 8, ping, VER 9, VER 10, ping from a loopback peer.
fn builder_session(asynchronous: bool, udp: bool, verify: Option<bool>, nodelay: Option<bool>, compressed: bool, p: &mut Part) -> Result<(), String> {
    use std::{
        io::{Read, Write},
        net::{TcpListener, UdpSocket},
        time::Duration,
    };

    use insim::{builder::Builder, net::Mode};

    use crate::transport::classify;
    let label = format!("builder-{}-{}-verify{:?}-nodelay{:?}-{}", if asynchronous { "async" } else { "blocking" }, if udp { "udp" } else { "tcp" }, verify, nodelay, mode_name(compressed));
    let ping = vec![if compressed { 1 } else { 4 }, 3, 5, 3];
    let frames: Vec<Vec<u8>> = vec![ver_frame(compressed, 1, 8), ping.clone(), ver_frame(compressed, 1, 9), ver_frame(compressed, 2, 10), ping.clone()];
    let stream: Vec<u8> = frames.concat();
    let effective = verify.unwrap_or(true); // documented default: verification on
    let (mut expect, _) = expected_results(&stream, compressed);
    if effective {
        expect[0] = ReadResult::IncompatibleVersion(8);
        expect[3] = ReadResult::IncompatibleVersion(10);
    }
    let listener = TcpListener::bind("127.0.0.1:0").map_err(|e| e.to_string())?;
    let peer_udp = UdpSocket::bind("127.0.0.1:0").map_err(|e| e.to_string())?;
    let remote = if udp { peer_udp.local_addr() } else { listener.local_addr() }.map_err(|e| e.to_string())?;
    let isi_len = 44; // IS_ISI is 44 bytes in both size modes
    let frames2 = frames.clone();
    let server = std::thread::spawn(move || -> Result<(), String> {
        if udp {
            peer_udp.set_read_timeout(Some(Duration::from_secs(20))).map_err(|e| e.to_string())?;
            let mut b = [0u8; 2048];
            let (_, from) = peer_udp.recv_from(&mut b).map_err(|e| format!("no ISI datagram: {e}"))?;
            for f in &frames2 {
                let _ = peer_udp.send_to(f, from).map_err(|e| e.to_string())?;
            }
            Ok(())
        } else {
            let (mut s, _) = listener.accept().map_err(|e| e.to_string())?;
            s.set_read_timeout(Some(Duration::from_secs(20))).map_err(|e| e.to_string())?;
            let mut isi = vec![0u8; isi_len];
            s.read_exact(&mut isi).map_err(|e| format!("no ISI: {e}"))?;
            for f in &frames2 {
                s.write_all(f).map_err(|e| e.to_string())?;
            }
            Ok(())
        }
    });
    let mut b = Builder::new().connect_timeout(Duration::from_secs(10));
    b = if udp { b.udp(remote, None) } else { b.tcp(remote) };
    b = b.mode(if compressed { Mode::Compressed } else { Mode::Uncompressed });
    if let Some(v) = verify {
        b = b.verify_version(v);
    }
    if let Some(n) = nodelay {
        b = b.tcp_nodelay(n);
    }
    let n = expect.len();
    let results: Vec<ReadResult> = if asynchronous {
        let rt = tokio::runtime::Builder::new_current_thread().enable_all().build().map_err(|e| e.to_string())?;
        rt.block_on(async {
            let mut f = b.connect_async().await.map_err(|e| format!("{label}: connect_async: {e}"))?;
            let mut out = vec![];
            for _ in 0..n {
                match tokio::time::timeout(Duration::from_secs(20), f.read()).await {
                    Ok(r) => out.push(classify(r)),
                    Err(_) => return Err(format!("{label}: read watchdog after {} results", out.len())),
                }
            }
            Ok::<_, String>(out)
        })?
    } else {
        let mut f = b.connect_blocking().map_err(|e| format!("{label}: connect_blocking: {e}"))?;
        let mut out = vec![];
        let t0 = std::time::Instant::now();
        while out.len() < n {
            if t0.elapsed() > Duration::from_secs(30) {
                return Err(format!("{label}: read watchdog after {} results", out.len()));
            }
            match classify(f.read()) {
                ReadResult::Io(k) if k == std::io::ErrorKind::WouldBlock || k == std::io::ErrorKind::TimedOut => continue,
                r => out.push(r),
            }
        }
        out
    };
    server.join().map_err(|_| format!("{label}: peer thread panicked"))??;
    p.evaluations += 1;
    p.distinct(&label);
    if results != expect {
        let at = results.iter().zip(expect.iter()).position(|(a, b)| a != b).unwrap_or(results.len().min(expect.len()));
        let what = if effective { "builder-verification-on-not-applied" } else { "builder-verification-off-not-honoured" };
        p.violation(
            format!("C09/{}/{what}", if asynchronous { "tokio" } else { "blocking" }),
            format!("{label}: result #{at} is {} expected {}", results.get(at).map(short).unwrap_or_else(|| "<none>".into()), expect.get(at).map(short).unwrap_or_else(|| "<none>".into())),
            json!({"label": label, "verify_version": format!("{:?}", verify), "tcp_nodelay": format!("{:?}", nodelay), "stream": hex(&stream)}),
        );
    }
    Ok(())
}
