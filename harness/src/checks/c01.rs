//! C01 — Lossless packet round trip in both directions.

use rayon::prelude::*;
use serde_json::json;

use crate::{
    bind,
    checks::c02,
    corpus::{self, debug_diff_field, mode_name, norm_debug, real_decode, real_encode, real_text_enc, Corpus, Dec, Enc, MODES},
    ctx::{guarded, hex, Ctx, Part, Tier},
    refspec::{json_of, FieldMap, GenOpts, Kind, Layout, TextMode, Val},
};

fn clip(s: &str) -> String {
    s.chars().take(400).collect()
}

/// One in-domain assignment: typed -> bytes -> typed, and bytes -> typed -> bytes.
pub fn check_assignment(c: &Corpus, lay: &Layout, fm: &FieldMap, label: &str, p: &mut Part) {
    let spec = &c.spec;
    p.evaluations += 1;
    let typed = match guarded(|| bind::from_fields(spec, lay, fm)) {
        Ok(Ok(t)) => t,
        Ok(Err(e)) => {
            p.count("binding_gaps", 1);
            p.violation(format!("C01/{}/no-typed-counterpart", lay.name), format!("{}: {e}", lay.name), json!({"kind": lay.name, "fields": json_of(fm)}));
            return;
        },
        Err(pn) => {
            p.violation(format!("C01/{}/binding-panic", lay.name), format!("constructing the typed packet panicked: {pn}"), json!({"kind": lay.name, "fields": json_of(fm)}));
            return;
        },
    };
    let typed_dbg = norm_debug(&typed);
    for compressed in MODES {
        let img = spec.encode(lay, fm, compressed, &real_text_enc);
        if img.representable.is_err() {
            p.count("not_representable_in_mode", 1);
            continue;
        }
        let replay = json!({"kind": lay.name, "mode": mode_name(compressed), "case": label, "fields": json_of(fm), "typed": clip(&typed_dbg)});
        // every few packets an encode that fails (a packet too large for the uncompressed mode: refused or aborted) runs
        // on this thread right before: the next frame must not inherit anything from it
        if p.evaluations % 5 == 0 {
            let big = insim::Packet::Axm(insim::insim::Axm { info: vec![Default::default(); 40], ..Default::default() });
            if matches!(real_encode(&big, false), Enc::Ok(_)) {
                p.count("oversize_packet_unexpectedly_encoded", 1);
            }
        }
        let frame = match real_encode(&typed, compressed) {
            Enc::Ok(b) => b,
            Enc::Err(e) => {
                p.violation(format!("C01/{}/encode-refused", lay.name), format!("{} {}: in-domain packet refused: {e}; packet {}", lay.name, mode_name(compressed), clip(&typed_dbg)), replay);
                continue;
            },
            Enc::Panic(pn) => {
                p.violation(format!("C01/{}/encode-panic", lay.name), format!("{} {}: encoding an in-domain packet panicked: {pn}; packet {}", lay.name, mode_name(compressed), clip(&typed_dbg)), replay);
                continue;
            },
        };
        p.distinct(&(compressed, &frame));
        // (a) decode(encode(p)) == p
        match real_decode(&frame, compressed) {
            Dec::Packet(q, left) => {
                let qd = norm_debug(&q);
                if left != 0 {
                    p.violation(format!("C01/{}/decode-leftover", lay.name), format!("{} {}: {left} bytes of the encoder's own frame were not consumed", lay.name, mode_name(compressed)), replay.clone());
                }
                if qd != typed_dbg {
                    let field = debug_diff_field(&typed_dbg, &qd);
                    p.violation(
                        format!("C01/{}/{}/roundtrip", lay.name, field),
                        format!("{} {}: encode then decode changes field {field}: sent {} got {} (frame {})", lay.name, mode_name(compressed), clip(&typed_dbg), clip(&qd), clip(&hex(&frame))),
                        replay.clone(),
                    );
                }
                // (b) encode(decode(f)) == f
                match real_encode(&q, compressed) {
                    Enc::Ok(b2) if b2 == frame => {},
                    Enc::Ok(b2) => {
                        let at = b2.iter().zip(frame.iter()).position(|(x, y)| x != y).unwrap_or(b2.len().min(frame.len()));
                        let field = if img.frame.len() == frame.len() { spec.field_at(&img, at) } else { format!("@{at}") };
                        p.violation(
                            format!("C01/{}/{}/reencode", lay.name, field),
                            format!("{} {}: decoding the encoder's frame and re-encoding changes the bytes at offset {at} ({field}): {} -> {}", lay.name, mode_name(compressed), clip(&hex(&frame)), clip(&hex(&b2))),
                            replay.clone(),
                        );
                    },
                    Enc::Err(e) => p.violation(format!("C01/{}/reencode-refused", lay.name), format!("{} {}: a decoded packet is refused by the encoder: {e}", lay.name, mode_name(compressed)), replay.clone()),
                    Enc::Panic(pn) => p.violation(format!("C01/{}/reencode-panic", lay.name), format!("{} {}: re-encoding a decoded packet panicked: {pn}", lay.name, mode_name(compressed)), replay.clone()),
                }
            },
            Dec::NeedMore => p.violation(format!("C01/{}/decode-needmore", lay.name), format!("{} {}: the encoder's frame is reported incomplete: {}", lay.name, mode_name(compressed), clip(&hex(&frame))), replay.clone()),
            Dec::Err(e, _) => p.violation(
                format!("C01/{}/decode-error", lay.name),
                format!("{} {}: the encoder's own frame is rejected by the decoder: {e}; packet {}", lay.name, mode_name(compressed), clip(&typed_dbg)),
                replay.clone(),
            ),
            Dec::Panic(pn) => p.violation(format!("C01/{}/decode-panic", lay.name), format!("{} {}: decoding the encoder's frame panicked: {pn}", lay.name, mode_name(compressed)), replay.clone()),
        }
        // (a') the same frame with another frame queued behind it in the buffer (as after one TCP read) decodes to the same packet
        {
            let mut queued = frame.clone();
            queued.extend_from_slice(&[if compressed { 1 } else { 4 }, 3, 2, 3]);
            match real_decode(&queued, compressed) {
                Dec::Packet(q, left) => {
                    let qd = norm_debug(&q);
                    if qd != typed_dbg || left != 4 {
                        let field = debug_diff_field(&typed_dbg, &qd);
                        p.violation(
                            format!("C01/{}/{}/roundtrip-with-successor-queued", lay.name, field),
                            format!("{} {}: with another frame queued behind it the encoder's frame decodes to {} ({left} bytes left; sent {})", lay.name, mode_name(compressed), clip(&qd), clip(&typed_dbg)),
                            replay.clone(),
                        );
                    }
                },
                _ => p.count("queued_frame_not_decoded", 1), // reported by (a) already
            }
        }
        // (a'') the public BinRead / BinWrite impls on stream-like readers and writers (short reads / short writes)
        {
            use insim_core::binrw::{BinRead, BinWrite};
            use insim::Packet;
            let max = 1 + (frame.len() % 3);
            let mut sink = crate::ioadapt::ShortSink::new(max);
            match guarded(|| typed.write(&mut sink)) {
                Ok(Ok(())) => {
                    let body = sink.bytes();
                    if body[..] != frame[1..] {
                        let at = body.iter().zip(frame[1..].iter()).position(|(x, y)| x != y).unwrap_or(body.len().min(frame.len() - 1));
                        p.violation(
                            format!("C01/{}/short-writing-sink", lay.name),
                            format!("{} {}: written through BinWrite into a writer that accepts {max} byte(s) per call, the packet body differs from the encoder's at offset {} ({} vs {} bytes)", lay.name, mode_name(compressed), at + 1, body.len(), frame.len() - 1),
                            replay.clone(),
                        );
                    }
                },
                Ok(Err(e)) => p.violation(format!("C01/{}/short-writing-sink", lay.name), format!("{} {}: BinWrite into a short-writing writer fails: {e}", lay.name, mode_name(compressed)), replay.clone()),
                Err(pn) => p.violation(format!("C01/{}/short-writing-sink", lay.name), format!("{} {}: BinWrite into a short-writing writer panicked: {pn}", lay.name, mode_name(compressed)), replay.clone()),
            }
            let mut rd = crate::ioadapt::ChunkReader::new(&frame[1..], max);
            match guarded(|| Packet::read(&mut rd).map_err(|e| e.to_string())) {
                Ok(Ok(q)) => {
                    let qd = norm_debug(&q);
                    if qd != typed_dbg {
                        let field = debug_diff_field(&typed_dbg, &qd);
                        p.violation(
                            format!("C01/{}/{}/chunking-reader", lay.name, field),
                            format!("{} {}: read through BinRead from a reader that returns {max} byte(s) per call: {} (sent {})", lay.name, mode_name(compressed), clip(&qd), clip(&typed_dbg)),
                            replay.clone(),
                        );
                    }
                },
                Ok(Err(e)) => p.violation(format!("C01/{}/chunking-reader", lay.name), format!("{} {}: BinRead from a chunking reader fails on the encoder's own frame: {}", lay.name, mode_name(compressed), clip(&e)), replay.clone()),
                Err(pn) => p.violation(format!("C01/{}/chunking-reader", lay.name), format!("{} {}: BinRead from a chunking reader panicked: {pn}", lay.name, mode_name(compressed)), replay.clone()),
            }
        }
        // (c) canonical frames of the specification: encode(decode(g)) == g
        if img.frame != frame {
            // the encoder disagrees with the specification: C02's subject. Still round-trip g.
            p.count("frames_differing_from_reference", 1);
        }
        match real_decode(&img.frame, compressed) {
            Dec::Packet(q, _) => match real_encode(&q, compressed) {
                Enc::Ok(b2) if b2 == img.frame => {},
                Enc::Ok(b2) => {
                    let at = b2.iter().zip(img.frame.iter()).position(|(x, y)| x != y).unwrap_or(b2.len().min(img.frame.len()));
                    let field = spec.field_at(&img, at);
                    p.violation(
                        format!("C01/{}/{}/canonical-reencode", lay.name, field),
                        format!("{} {}: canonical frame {} decodes and re-encodes to {} (offset {at}, {field})", lay.name, mode_name(compressed), clip(&hex(&img.frame)), clip(&hex(&b2))),
                        replay.clone(),
                    );
                },
                Enc::Err(e) => p.violation(format!("C01/{}/canonical-reencode-refused", lay.name), format!("{} {}: packet decoded from a canonical frame is refused: {e}", lay.name, mode_name(compressed)), replay.clone()),
                Enc::Panic(pn) => p.violation(format!("C01/{}/canonical-reencode-panic", lay.name), format!("{} {}: re-encoding a packet decoded from a canonical frame panicked: {pn}", lay.name, mode_name(compressed)), replay.clone()),
            },
            _ => p.count("canonical_frame_not_decoded", 1), // C02's subject
        }
    }
}

/// MSO: keep the typed textstart (a byte offset into the UTF-8 message) within its u8.
fn fix_mso(fm: &mut FieldMap) {
    if let (Some(Val::T(msg)), Some(Val::U(ts))) = (fm.get("Msg").cloned(), fm.get("TextStart").cloned()) {
        let mut ts = ts as usize;
        while bind::mso_textstart_bytes(&msg, ts) > 255 {
            ts -= 1;
        }
        corpus::set(fm, "TextStart", Val::U(ts as u64));
    }
}

pub fn run(ctx: &mut Ctx) -> (&'static str, String, bool) {
    let c = match Corpus::load() {
        Ok(c) => c,
        Err(e) => {
            ctx.inconclusive(format!("cannot load the reference specification: {e}"));
            return ("exploration", "spec missing".into(), false);
        },
    };
    let thorough = ctx.tier == Tier::Thorough;
    let n_mixed = ctx.tier.pick(1_200u64, 40_000u64);
    let n_ascii = ctx.tier.pick(600u64, 20_000u64);
    let bases = ctx.tier.pick(2u64, 6u64);
    let base_rng = ctx.rng.fork(1);
    let c = &c;
    ctx.extra("mixed_text_pool", json!(c.mixed_pool.iter().collect::<String>()));
    let parts: Vec<Part> = c
        .kinds()
        .par_iter()
        .enumerate()
        .map(|(ki, lay)| {
            let mut p = Part::new();
            let mut r = base_rng.fork(ki as u64);
            let g = c.gen();
            // random joint assignments, multi-codepage text, full element counts, boundary-biased integers
            for (n, text) in [(n_mixed, TextMode::Mixed), (n_ascii, TextMode::Ascii)] {
                let o = GenOpts { text, max_list: None, boundary: 6, hostile: false };
                for i in 0..n {
                    let mut fm = g.packet(&mut r, lay, &o);
                    fix_mso(&mut fm);
                    check_assignment(c, lay, &fm, "random-joint", &mut p);
                    if i == 0 && text == TextMode::Mixed {
                        p.sample(json!({"kind": lay.name, "fields": json_of(&fm)}));
                    }
                }
            }
            // systematic single-field sweeps (all 256 values of byte fields, every enumerant, every flag bit, ...)
            let o = GenOpts { text: TextMode::Ascii, max_list: Some(4), boundary: 0, hostile: false };
            for _ in 0..bases {
                let mut base = g.packet(&mut r, lay, &o);
                fix_mso(&mut base);
                for (label, mut fm) in c02::sweeps(c, lay, &base, &mut r, true) {
                    fix_mso(&mut fm);
                    check_assignment(c, lay, &fm, &label, &mut p);
                }
                // every 4-bit sub-field value x its neighbour's 16 values
                for f in &lay.fields {
                    if let Kind::Array(_, st) = &f.kind {
                        for sf in &c.spec.structs[st].fields {
                            if let Kind::Nib(hi, lo) = &sf.kind {
                                if lo == "SpareLow" {
                                    continue;
                                }
                                if let Some(Val::L(items)) = base.get(&f.name) {
                                    for h in 0u64..16 {
                                        for l in 0u64..16 {
                                            let mut its = items.clone();
                                            corpus::set(&mut its[0], hi, Val::U(h));
                                            corpus::set(&mut its[0], lo, Val::U(l));
                                            let mut fm = base.clone();
                                            corpus::set(&mut fm, &f.name, Val::L(its));
                                            check_assignment(c, lay, &fm, &format!("{}.{hi}x{lo}", f.name), &mut p);
                                        }
                                    }
                                }
                            }
                        }
                    }
                }
                // MSO: TextStart at every character boundary of a multi-codepage message
                if lay.name == "MSO" {
                    let om = GenOpts { text: TextMode::Mixed, max_list: None, boundary: 0, hostile: false };
                    for _ in 0..if thorough { 40 } else { 6 } {
                        let m = g.packet(&mut r, lay, &om);
                        if let Some(Val::T(t)) = m.get("Msg") {
                            for ts in 0..=t.chars().count() {
                                let mut fm = m.clone();
                                corpus::set(&mut fm, "TextStart", Val::U(ts as u64));
                                fix_mso(&mut fm);
                                check_assignment(c, lay, &fm, "mso-textstart-boundary", &mut p);
                            }
                        }
                    }
                }
            }
            p.count(&format!("kind_{}", lay.name), p.evaluations);
            p
        })
        .collect();
    let mut kinds = 0;
    for p in parts {
        kinds += 1;
        ctx.merge(p);
    }
    ctx.extra("kinds_covered", json!(kinds));
    ctx.extra(
        "in_domain_definition",
        json!("defined flag bits only; 4-bit sub-fields <= 15 (spare nibble 0); any wire value of every time field; race length bytes 0..=238; text free of NUL and caret, every character in a codepage, encoded length <= field width (<= width-1 for MST/MSX/MSL/MTC); prefix/charb <= U+00FF; vehicles: 20 built-ins, Unknown, Mod(id) with id non-zero and not built-in shaped; handicaps within documented maxima; sets without duplicates; MSO textstart 0 or a character boundary whose UTF-8 offset fits a byte; game versions whose number prints canonically; finite floats"),
    );
    if kinds != 73 {
        ctx.inconclusive(format!("{kinds} packet kinds in the table, expected 73"));
    }
    ctx.assume("packets are compared through their Debug rendering (sets order-normalised) and through frame bytes, because they do not implement PartialEq");
    (
        "exploration",
        "per kind and size mode: random joint in-domain assignments (multi-codepage and ASCII text, 0..protocol-max elements, boundary-biased integers) + single-field sweeps (all 256 values of byte fields, every enumerant, every single flag bit, every nibble pair, every list count) + MSO TextStart at every character boundary; each checked decode(encode(p))==p, encode(decode(f))==f and canonical reference frames re-encode identically; distinct = distinct (mode, encoded frame)".into(),
        false,
    )
}
