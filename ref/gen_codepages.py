#!/usr/bin/env python3
"""Generate byte-sequence -> code point tables for the ten LFS codepages from CPython's codecs
(which are generated from Microsoft's / Unicode.org's CPxxxx.TXT mappings). python3 stdlib only.
Output: ref/codepages/cp<NNN>.tsv, lines "<hex bytes>\t<hex code point>"; ASCII (0x00-0x7F) omitted."""
import os
HERE = os.path.dirname(os.path.abspath(__file__))
SINGLE = ["cp1252", "cp1253", "cp1251", "cp1250", "cp1254", "cp1257"]
DOUBLE = ["cp932", "cp936", "cp949", "cp950"]

def dec(codec, bs):
    try:
        s = bytes(bs).decode(codec)
    except UnicodeDecodeError:
        return None
    if len(s) != 1:
        return None
    # must also encode back to the same bytes (drop one-way / duplicate mappings)
    try:
        if s.encode(codec) != bytes(bs):
            return None
    except UnicodeEncodeError:
        return None
    return ord(s)

for c in SINGLE + DOUBLE:
    rows = []
    for b in range(0x80, 0x100):
        cp = dec(c, [b])
        if cp is not None:
            rows.append(("%02x" % b, cp))
    if c in DOUBLE:
        for lead in range(0x81, 0xFF):
            if dec(c, [lead]) is not None:
                continue  # single-byte in this codepage (e.g. half-width katakana)
            for trail in range(0x40, 0xFF):
                cp = dec(c, [lead, trail])
                if cp is not None:
                    rows.append(("%02x%02x" % (lead, trail), cp))
    with open(os.path.join(HERE, "codepages", c + ".tsv"), "w") as f:
        for h, cp in rows:
            f.write("%s\t%04x\n" % (h, cp))
    print(c, len(rows))
