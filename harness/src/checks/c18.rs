//! C18 — The handshake carries exactly the configured connection options.

use std::{
    io::Read,
    net::{SocketAddr, TcpListener, UdpSocket},
    time::Duration,
};

use insim::{identifiers::RequestId, insim::IsiFlags, net::Mode, Builder, Packet};
use serde_json::json;

use crate::{
    bind,
    corpus::{mode_name, norm_debug, real_encode, Corpus, Enc},
    ctx::{guarded, hex, panic_site, Ctx, Part, Tier},
    refspec::{FieldMap, Val},
    rng::Rng,
};

const FLAGS: [&str; 10] = ["LOCAL", "MSO_COLS", "NLP", "MCI", "CON", "OBH", "HLV", "AXM_LOAD", "AXM_EDIT", "REQ_JOIN"];

#[derive(Clone, Debug, PartialEq)]
enum Proto {
    Tcp,
    Udp(Option<u16>),
    Relay,
}

/// Plain-struct reference model of the builder: later calls override, flag helpers toggle one bit.
#[derive(Clone, Debug)]
struct Model {
    flags: Vec<bool>,
    prefix: Option<u8>,
    interval_ms: Option<u64>,
    iname: Option<String>,
    admin: Option<String>,
    reqi: u8,
    proto: Proto,
    compressed: bool,
    /// flag bits without a name (reserved / future bits) configured through `isi_flags(from_bits_retain(..))`:
    /// the single-flag setters must leave them alone
    extra_flag_bits: u16,
}

impl Default for Model {
    fn default() -> Self {
        Model { flags: vec![false; 10], prefix: None, interval_ms: None, iname: None, admin: None, reqi: 0, proto: Proto::Tcp, compressed: true, extra_flag_bits: 0 }
    }
}

impl Model {
    fn expected(&self) -> FieldMap {
        let mut fm = FieldMap::new();
        let port = match &self.proto {
            Proto::Udp(Some(p)) => *p as u64,
            _ => 0,
        };
        let set = |fm: &mut FieldMap, k: &str, v: Val| {
            let _ = fm.insert(k.to_string(), v);
        };
        set(&mut fm, "ReqI", Val::U(self.reqi as u64));
        set(&mut fm, "UDPPort", Val::U(port));
        set(&mut fm, "Flags", Val::S(FLAGS.iter().zip(self.flags.iter()).filter(|(_, on)| **on).map(|(n, _)| n.to_string()).collect()));
        set(&mut fm, "InSimVer", Val::U(9));
        set(&mut fm, "Prefix", Val::U(self.prefix.unwrap_or(0) as u64));
        set(&mut fm, "Interval", Val::U(self.interval_ms.unwrap_or(0)));
        set(&mut fm, "Admin", Val::T(self.admin.clone().unwrap_or_default()));
        set(&mut fm, "IName", Val::T(self.iname.clone().unwrap_or_else(|| "insim.rs".into())));
        fm
    }
}

#[derive(Clone, Debug)]
enum Call {
    Flag(usize, bool),
    FlagsWholesale(Vec<bool>),
    /// wholesale replacement with raw bits, named or not
    FlagsRaw(u16),
    Prefix(Option<u8>),
    Interval(Option<u64>),
    IName(Option<String>),
    Admin(Option<String>),
    ReqI(u8),
    Tcp,
    Udp(bool),
    Relay,
    Compressed(bool),
    VerifyVersion(bool),
    NoDelay(bool),
    ConnectTimeout,
    RelayHost,
    /// start over from one of the crate-level shortcuts `insim::tcp` / `insim::udp` / `insim::relay`
    Shortcut(u8),
}

fn apply(b: Builder, m: &mut Model, c: &Call, remote: SocketAddr, local: SocketAddr) -> Builder {
    match c {
        Call::Flag(i, on) => {
            m.flags[*i] = *on;
            match i {
                0 => b.isi_flag_local(*on),
                1 => b.isi_flag_mso_cols(*on),
                2 => b.isi_flag_nlp(*on),
                3 => b.isi_flag_mci(*on),
                4 => b.isi_flag_con(*on),
                5 => b.isi_flag_obh(*on),
                6 => b.isi_flag_hlv(*on),
                7 => b.isi_flag_axm_load(*on),
                8 => b.isi_flag_axm_edit(*on),
                _ => b.isi_flag_req_join(*on),
            }
        },
        Call::FlagsWholesale(v) => {
            m.flags = v.clone();
            m.extra_flag_bits = 0;
            let names: Vec<String> = FLAGS.iter().zip(v.iter()).filter(|(_, on)| **on).map(|(n, _)| n.to_string()).collect();
            let f: IsiFlags = bind::fl(&names).expect("IsiFlags by name");
            b.isi_flags(f)
        },
        Call::FlagsRaw(bits) => {
            let mut named_mask = 0u16;
            for (i, n) in FLAGS.iter().enumerate() {
                let bit = bind::fl::<IsiFlags>(&[n.to_string()]).expect("IsiFlags by name").bits();
                named_mask |= bit;
                m.flags[i] = bits & bit != 0;
            }
            m.extra_flag_bits = bits & !named_mask;
            b.isi_flags(IsiFlags::from_bits_retain(*bits))
        },
        Call::Prefix(p) => {
            m.prefix = *p;
            b.isi_prefix(p.map(|x| x as char))
        },
        Call::Interval(i) => {
            m.interval_ms = *i;
            b.isi_interval(i.map(Duration::from_millis))
        },
        Call::IName(n) => {
            m.iname = n.clone();
            b.isi_iname(n.clone())
        },
        Call::Admin(a) => {
            m.admin = a.clone();
            b.isi_admin_password(a.clone())
        },
        Call::ReqI(r) => {
            m.reqi = *r;
            b.isi_reqi(RequestId(*r))
        },
        Call::Tcp => {
            m.proto = Proto::Tcp;
            b.tcp(remote)
        },
        Call::Udp(with_local) => {
            m.proto = Proto::Udp(if *with_local { Some(local.port()) } else { None });
            b.udp(remote, if *with_local { Some(local) } else { None })
        },
        Call::Relay => {
            m.proto = Proto::Relay;
            b.relay()
        },
        Call::Shortcut(k) => {
            // a fresh builder with the documented defaults and the chosen transport
            *m = Model::default();
            match k % 4 {
                0 => {
                    m.proto = Proto::Tcp;
                    insim::tcp(remote)
                },
                1 => {
                    m.proto = Proto::Udp(Some(local.port()));
                    insim::udp(remote, Some(local))
                },
                2 => {
                    m.proto = Proto::Udp(None);
                    insim::udp(remote, None)
                },
                _ => {
                    m.proto = Proto::Relay;
                    insim::relay()
                },
            }
        },
        Call::Compressed(c) => {
            m.compressed = *c;
            if *c {
                b.compressed()
            } else {
                b.mode(Mode::Uncompressed)
            }
        },
        Call::VerifyVersion(v) => b.verify_version(*v),
        Call::NoDelay(v) => b.tcp_nodelay(*v),
        Call::ConnectTimeout => b.connect_timeout(Duration::from_secs(3)),
        Call::RelayHost => b.relay_select_host("host".to_string()).relay_admin_password("a".to_string()).relay_spectator_password(None::<String>),
    }
}

fn random_call(r: &mut Rng) -> Call {
    // names up to 16 ENCODED bytes: ASCII, or text whose UTF-8 length differs from its wire length
    let name = |r: &mut Rng| -> String {
        let pool: &[char] = match r.below(4) {
            0 | 1 => &['a', 'b', 'x', 'Z', '-', '9'],
            2 => &['ä', 'ü', 'é', 'ß', 'a', '-'],
            _ => &['Т', 'е', 'л', 'м', 'ラ', 'ッ', 'a'],
        };
        let mut s = String::new();
        for _ in 0..r.usize_below(17) {
            let mut t = s.clone();
            t.push(*r.pick(pool));
            if crate::corpus::enc_len(&t) > 16 {
                break;
            }
            s = t;
        }
        s
    };
    let ascii = |r: &mut Rng| -> String { (0..r.usize_below(17)).map(|_| (b'a' + r.below(26) as u8) as char).collect() };
    match r.below(17) {
        0..=4 => Call::Flag(r.usize_below(10), r.chance(1, 2)),
        5 => {
            if r.chance(1, 3) {
                Call::FlagsRaw(r.below(65536) as u16)
            } else {
                Call::FlagsWholesale((0..10).map(|_| r.chance(1, 2)).collect())
            }
        },
        6 => Call::Prefix(if r.chance(1, 4) { None } else { Some(r.range(0x21, 0x7e) as u8) }),
        7 => Call::Interval(if r.chance(1, 4) {
            None
        } else if r.chance(1, 6) {
            // beyond the 16-bit millisecond field: must be refused when the handshake is encoded, never sent as another value
            Some(*r.pick(&[65_536u64, 65_537, 70_000, 131_071, 131_072, 3_600_000, u32::MAX as u64 + 1]))
        } else {
            Some(r.below(65536))
        }),
        8 => Call::IName(if r.chance(1, 4) { None } else { Some(name(r)) }),
        9 => Call::Admin(if r.chance(1, 4) {
            None
        } else if r.chance(1, 2) {
            Some(ascii(r))
        } else {
            // the password travels as the string's own bytes: up to 16 UTF-8 bytes of anything
            let pool = ['p', 'ä', 'ö', 'ß', 'Ж', 'я', 'ラ', '^', 'J', '9', 'é'];
            let mut s = String::new();
            for _ in 0..r.usize_below(17) {
                let c = *r.pick(&pool);
                if s.len() + c.len_utf8() > 16 {
                    break;
                }
                s.push(c);
            }
            Some(s)
        }),
        10 => Call::ReqI(r.below(256) as u8),
        11 => Call::Tcp,
        12 => Call::Udp(r.chance(1, 2)),
        13 => Call::Relay,
        14 => Call::Compressed(r.chance(1, 2)),
        15 => Call::VerifyVersion(r.chance(1, 2)),
        _ => match r.below(5) {
            0 => Call::NoDelay(true),
            1 => Call::ConnectTimeout,
            2 => Call::RelayHost,
            3 => Call::Shortcut(r.below(4) as u8),
            _ => Call::NoDelay(false),
        },
    }
}

fn reference_image(c: &Corpus, m: &Model) -> Vec<u8> {
    let lay = c.spec.packet("ISI");
    let mut f = c.spec.encode(lay, &m.expected(), m.compressed, &crate::corpus::real_text_enc).frame;
    if f.len() >= 8 {
        // Flags is the 16-bit word at offset 6
        f[6] |= (m.extra_flag_bits & 0xff) as u8;
        f[7] |= (m.extra_flag_bits >> 8) as u8;
    }
    f
}

/// isi() of the builder vs the reference model.
fn check_isi(c: &Corpus, b: &Builder, m: &Model, calls: &[Call], p: &mut Part) {
    p.evaluations += 1;
    let replay = json!({"calls": calls.iter().map(|c| format!("{:?}", c)).collect::<Vec<_>>(), "model": format!("{:?}", m)});
    let isi = match guarded(|| b.isi()) {
        Ok(i) => i,
        Err(pn) => {
            let what = if matches!(m.proto, Proto::Udp(None)) { "udp-without-local-address" } else { "other" };
            p.violation(format!("C18/isi-panic/{what}/{}", panic_site(&pn)), format!("Builder::isi() panicked for {:?}: {pn}", m.proto), replay);
            return;
        },
    };
    let lay = c.spec.packet("ISI");
    let mut expect = match bind::from_fields(&c.spec, lay, &m.expected()) {
        Ok(e) => e,
        Err(e) => {
            p.violation("C18/binding", e, replay);
            return;
        },
    };
    if let Packet::Isi(i) = &mut expect {
        i.flags = IsiFlags::from_bits_retain(i.flags.bits() | m.extra_flag_bits);
    }
    let got = norm_debug(&Packet::Isi(isi.clone()));
    let want = norm_debug(&expect);
    if got != want {
        let field = crate::corpus::debug_diff_field(&want, &got);
        p.violation(format!("C18/isi-field/{field}"), format!("Builder::isi() = {got}, configured options imply {want}"), replay.clone());
    }
    let over = m.interval_ms.unwrap_or(0) > 65_535;
    match real_encode(&Packet::Isi(isi), m.compressed) {
        Enc::Ok(bytes) if over => p.violation(
            "C18/out-of-range-interval-sent",
            format!("an interval of {} ms does not fit the 16-bit field, yet the ISI is encoded (interval bytes {})", m.interval_ms.unwrap_or(0), hex(&bytes[10..12])),
            replay,
        ),
        Enc::Ok(bytes) => {
            let img = reference_image(c, m);
            p.distinct(&img);
            if bytes != img {
                p.violation("C18/isi-image", format!("encoded ISI {} differs from the reference image {}", hex(&bytes), hex(&img)), replay);
            }
        },
        Enc::Err(_) if over => p.distinct(&("refused", m.interval_ms)),
        Enc::Err(e) => p.violation("C18/isi-not-encodable", format!("the configured ISI is refused by the encoder: {e}"), replay),
        Enc::Panic(pn) => p.violation(format!("C18/isi-encode-panic/{}", panic_site(&pn)), format!("encoding the configured ISI panicked: {pn}"), replay),
    }
}

fn free_local_port() -> Option<SocketAddr> {
    let s = UdpSocket::bind("127.0.0.1:0").ok()?;
    s.local_addr().ok()
}

/// connect over real loopback sockets and compare what the peer receives.
fn check_wire(c: &Corpus, r: &mut Rng, asynchronous: bool, p: &mut Part) -> Result<(), String> {
    let udp = r.chance(1, 2);
    let mut m = Model::default();
    // a quarter of the connections go to an IPv6 peer (if this machine has an IPv6 loopback)
    let v6 = r.chance(1, 4) && TcpListener::bind("[::1]:0").is_ok();
    let host = if v6 { "[::1]:0" } else { "127.0.0.1:0" };
    let local = UdpSocket::bind(host).ok().and_then(|s| s.local_addr().ok()).ok_or("no free local port")?;
    // peers
    let listener = TcpListener::bind(host).map_err(|e| e.to_string())?;
    let peer_udp = UdpSocket::bind(host).map_err(|e| e.to_string())?;
    let remote = if udp { peer_udp.local_addr() } else { listener.local_addr() }.map_err(|e| e.to_string())?;
    // either the transport is chosen first and options follow, or options and other transport choices (relay
    // included) come first and the transport that is finally connected is chosen last: later calls override
    // (without a local address the builder binds an IPv4 wildcard socket: that form is used with IPv4 peers only)
    let final_proto = if udp { Call::Udp(v6 || r.chance(2, 3)) } else { Call::Tcp };
    let proto_last = r.chance(1, 2);
    let mut calls = if proto_last { vec![] } else { vec![final_proto.clone()] };
    for _ in 0..r.usize_below(12) {
        let cl = random_call(r);
        if !proto_last && matches!(cl, Call::Tcp | Call::Udp(_) | Call::Relay | Call::Shortcut(_)) {
            continue;
        }
        calls.push(cl);
    }
    // the options that belong to another transport (the relay's host selection and passwords) are rare in random
    // sequences: a third of the sessions set them at a random position, before or after the transport is chosen
    if r.chance(1, 3) {
        let at = if proto_last { r.usize_below(calls.len() + 1) } else { 1 + r.usize_below(calls.len()) };
        calls.insert(at, Call::RelayHost);
    }
    if proto_last {
        calls.push(final_proto);
    }
    let mut b = Builder::new().connect_timeout(Duration::from_secs(5));
    for cl in &calls {
        b = apply(b, &mut m, cl, remote, local);
    }
    if m.interval_ms.unwrap_or(0) > 65_535 {
        // an unencodable interval makes the handshake fail (checked without sockets above); the wire check needs one that is sent
        let cl = Call::Interval(Some(r.below(65536)));
        b = apply(b, &mut m, &cl, remote, local);
        calls.push(cl);
    }
    p.evaluations += 1;
    let label = format!("{}-{}{}-{}", if asynchronous { "async" } else { "blocking" }, if udp { "udp" } else { "tcp" }, if v6 { "6" } else { "" }, mode_name(m.compressed));
    let replay = json!({"label": label, "calls": calls.iter().map(|c| format!("{:?}", c)).collect::<Vec<_>>()});
    let img = reference_image(c, &m);
    p.distinct(&(label.clone(), &img));
    // connect; keep the connection alive until the peer has looked, then drop it
    enum Live {
        B(insim::net::blocking_impl::Framed),
        A(insim::net::tokio_impl::Framed, tokio::runtime::Runtime),
    }
    let live = if asynchronous {
        let rt = tokio::runtime::Builder::new_current_thread().enable_all().build().map_err(|e| e.to_string())?;
        match guarded(|| rt.block_on(b.connect_async())) {
            Ok(Ok(f)) => Live::A(f, rt),
            Ok(Err(e)) => {
                p.violation(format!("C18/connect-failed/{label}"), format!("{label}: connect_async failed: {e}"), replay);
                return Ok(());
            },
            Err(pn) => {
                let what = if matches!(m.proto, Proto::Udp(None)) { "udp-without-local-address" } else { "other" };
                p.violation(format!("C18/connect-panic/{what}/{}", panic_site(&pn)), format!("{label}: connect_async panicked: {pn}"), replay);
                return Ok(());
            },
        }
    } else {
        match guarded(|| b.connect_blocking()) {
            Ok(Ok(f)) => Live::B(f),
            Ok(Err(e)) => {
                p.violation(format!("C18/connect-failed/{label}"), format!("{label}: connect_blocking failed: {e}"), replay);
                return Ok(());
            },
            Err(pn) => {
                let what = if matches!(m.proto, Proto::Udp(None)) { "udp-without-local-address" } else { "other" };
                p.violation(format!("C18/connect-panic/{what}/{}", panic_site(&pn)), format!("{label}: connect_blocking panicked: {pn}"), replay);
                return Ok(());
            },
        }
    };
    if udp {
        peer_udp.set_read_timeout(Some(Duration::from_secs(10))).map_err(|e| e.to_string())?;
        let mut buf = [0u8; 2048];
        match peer_udp.recv(&mut buf) {
            Ok(n) => {
                if buf[..n] != img[..] {
                    p.violation(format!("C18/wire-image/{label}"), format!("{label}: peer received {} expected {}", hex(&buf[..n]), hex(&img)), replay.clone());
                }
            },
            Err(e) => return Err(format!("{label}: no datagram arrived: {e}")),
        }
        peer_udp.set_nonblocking(true).map_err(|e| e.to_string())?;
        std::thread::sleep(Duration::from_millis(2));
        if let Ok(n) = peer_udp.recv(&mut buf) {
            p.violation(format!("C18/extra-datagram/{label}"), format!("{label}: a second datagram of {n} bytes followed the ISI"), replay);
        }
        drop(live);
    } else {
        let (mut s, _) = listener.accept().map_err(|e| e.to_string())?;
        drop(live); // closes the client side: everything it sent, then EOF
        s.set_read_timeout(Some(Duration::from_secs(10))).map_err(|e| e.to_string())?;
        let mut got = vec![];
        s.read_to_end(&mut got).map_err(|e| format!("{label}: reading from the accepted socket: {e}"))?;
        if got != img {
            p.violation(
                format!("C18/wire-image/{label}"),
                format!("{label}: peer received {} bytes {} expected exactly the {}-byte ISI {}", got.len(), hex(&got[..got.len().min(96)]), img.len(), hex(&img)),
                replay,
            );
        }
    }
    Ok(())
}

pub fn run(ctx: &mut Ctx) -> (&'static str, String, bool) {
    let c = match Corpus::load() {
        Ok(c) => c,
        Err(e) => {
            ctx.inconclusive(format!("cannot load the reference specification: {e}"));
            return ("exploration", "spec missing".into(), false);
        },
    };
    let asan = ctx.stage.as_deref() == Some("asan");
    let mut p = Part::new();
    let mut r = ctx.rng.fork(18);
    let remote: SocketAddr = "127.0.0.1:29999".parse().unwrap();
    let local: SocketAddr = "127.0.0.1:30123".parse().unwrap();
    if !asan {
        // ---- all 2^10 flag states reached through the setters, in random setter orders ----------------
        for state in 0u32..1024 {
            let mut order: Vec<usize> = (0..10).collect();
            r.shuffle(&mut order);
            let mut m = Model::default();
            let mut b = Builder::new();
            let mut calls = vec![];
            // first set a random other state, then move to the target (exercises on->off as well)
            for i in 0..10 {
                let cl = Call::Flag(i, r.chance(1, 2));
                b = apply(b, &mut m, &cl, remote, local);
                calls.push(cl);
            }
            for i in order {
                let cl = Call::Flag(i, (state >> i) & 1 == 1);
                b = apply(b, &mut m, &cl, remote, local);
                calls.push(cl);
            }
            check_isi(&c, &b, &m, &calls, &mut p);
            // wholesale replacement to the same state from an arbitrary one
            let mut m2 = Model::default();
            let mut b2 = Builder::new();
            let c1 = Call::FlagsWholesale((0..10).map(|_| r.chance(1, 2)).collect());
            let c2 = Call::FlagsWholesale((0..10).map(|i| (state >> i) & 1 == 1).collect());
            b2 = apply(b2, &mut m2, &c1, remote, local);
            b2 = apply(b2, &mut m2, &c2, remote, local);
            check_isi(&c, &b2, &m2, &[c1, c2], &mut p);
        }
        // ---- option presence / absence lattice x transport x mode ---------------------------------------
        for mask in 0u32..32 {
            for proto in [Call::Tcp, Call::Udp(true), Call::Udp(false), Call::Relay] {
                for compressed in [true, false] {
                    let mut m = Model::default();
                    let mut b = Builder::new();
                    let mut calls = vec![proto.clone(), Call::Compressed(compressed)];
                    if mask & 1 != 0 {
                        calls.push(Call::Prefix(Some(b'!')));
                    }
                    if mask & 2 != 0 {
                        calls.push(Call::Interval(Some(1000)));
                    }
                    if mask & 4 != 0 {
                        calls.push(Call::IName(Some(if mask & 1 != 0 { "Rundenzähler-Süd".into() } else { "verif".into() })));
                    }
                    if mask & 8 != 0 {
                        calls.push(Call::Admin(Some(if mask & 2 != 0 { "pässwörd^Jя".into() } else { "secret".into() })));
                    }
                    if mask & 16 != 0 {
                        calls.push(Call::ReqI(7));
                    }
                    for cl in &calls {
                        b = apply(b, &mut m, cl, remote, local);
                    }
                    check_isi(&c, &b, &m, &calls, &mut p);
                }
            }
        }
        // ---- random call sequences over all builder methods ------------------------------------------------
        for _ in 0..ctx.tier.pick(20_000u64, 500_000u64) {
            let mut m = Model::default();
            let mut b = Builder::new();
            let n = r.usize_below(31);
            let mut calls = vec![];
            for _ in 0..n {
                let cl = random_call(&mut r);
                b = apply(b, &mut m, &cl, remote, local);
                calls.push(cl);
            }
            check_isi(&c, &b, &m, &calls, &mut p);
        }
        p.sample(json!({"calls": ["Udp(false)", "Flag(3, true)", "Interval(Some(500))"], "expected": {"UDPPort": 0, "Flags": ["MCI"], "Interval": 500, "IName": "insim.rs"}}));
    }
    // ---- on the wire -------------------------------------------------------------------------------------------
    let n_wire = if asan { 200 } else { ctx.tier.pick(120u64, 2000u64) };
    let mut wire_ok = 0;
    for i in 0..n_wire {
        match check_wire(&c, &mut r, i % 2 == 0, &mut p) {
            Ok(()) => wire_ok += 1,
            Err(e) => ctx.inconclusive(format!("wire session {i}: {e}")),
        }
    }
    ctx.merge(p);
    ctx.extra("wire_sessions", json!(wire_ok));
    let _ = Tier::Quick;
    ctx.assume("relay endpoints (isrelay.lfs.net) cannot be dialled offline: the relay proto is covered for isi() only");
    ctx.assume("documented defaults: flags empty, prefix 0, interval 0, name \"insim.rs\", empty password, request id 0, UDP port = configured local port or 0");
    (
        "exploration",
        "all 2^10 flag states reached through the ten setters in random orders (from random prior states) and through wholesale replacement; the 2^5 presence lattice of prefix/interval/name/password/request-id x {tcp, udp+local, udp without local, relay} x both modes; random call sequences of length <= 30 over all builder methods against a plain-struct reference model; connect_blocking / connect_async to loopback TCP listeners and UDP sockets with the received bytes compared to the reference ISI image; distinct = distinct reference ISI images".into(),
        false,
    )
}
